"""C03 — spends are authorised only by valid, canonical signatures."""
PROP = dict(
    modules=["CG.Props.C03", "CG.Props.TxChecker", "CG.Props.C03cov"],
    required_theorems=["C03_lock_always_runs", "C03_lock_verdict_not_ignored", "C03_pinned_bypass_op_return",
                       "C03_pinned_bypass_swallowing_push", "C03_repaired_rejects_bypasses",
                       "C03_p2pkh_sound", "C03_p2pk_sound", "C03_msloop_sound", "C03_multisig_sound", "C03_authorisation",
                       "C03_no_signature_no_spend_p2pkh", "C03_no_signature_no_spend_p2pk", "C03_no_signature_no_spend_multisig",
                       "C03_uncovered_fields_irrelevant", "C03_covered_fields_bind", "C03_coverage_table_sound", "C03_der_strict", "C03_der_roundtrip", "C03_low_s", "C03_sig_bip66", "C03_sig_length",
                       # CG.Props.TxChecker: the real TransactionChecker and the whole of Tx::validate inside the model
                       "C07_transaction_checker_no_panic", "C07_eval_transaction_checker_no_panic", "C07_z_checker_no_panic",
                       "C07_transactionless_checker_no_panic", "C07_validate_tx_no_panic", "C03_check_sig_iff", "C03_check_sig_iff_fresh",
                       "C03_check_sig_iff_spec", "C03_validate_tx_cache_transparent", "C03_input_authorised", "C03_validate_tx_sound",
                       "C03_validate_tx_no_signature_no_spend_p2pkh"],
    rule="c03.spend: Tx::validate (real TransactionChecker, real sighash, k256) on a spend of a P2PKH / P2PK / 2-of-3 / 1-of-1 multisig "
         "output whose unlocking script is attacker-chosen and contains no valid signature: every opcode sequence of length <= 2 over "
         "{opcodes 79..185} U {9 boundary pushes} U {pushes and PUSHDATA1/2/4 prefixes whose declared length is |lock|, |lock|+1, "
         "|lock|+2, and truncated prefixes}, length 3 sampled (thorough: exhaustive on P2PKH), length 4 sampled, plus grammar, hostile "
         "and random longer scripts, both rule sets; any acceptance is a violation. c03.signed: library-signed spends of every "
         "template x six FORKID types x both rule sets are accepted. c03.mut: wallet-signed (Wallet::sign_tx_input) P2PKH spend of every input position of 1..5-input / 1..5-output "
         "transactions under the six FORKID types, then each of 20 single-field mutations (version, lock time, own/other sequence, own/other "
         "outpoint, added input, same-index/other output amount and script, added/removed output, spent amount, spent script, key, "
         "signature r/s/type byte, another input's unlocking script): Tx::validate must fail exactly when BIP-143 commits to the field "
         "for that type (coverage table CG/Spec/SighashCoverage.lean), and succeed otherwise. c03.sig: generate_signature output is deterministic, strict DER, "
         "low S, 9..73 bytes and verifies under the signer's key in an independent Lean secp256k1 (keys incl. scalars 1, 2, n-1; "
         "digests incl. all-zero and all-ones). c03.txv: Tx::validate on self-contained requests (raw transaction, unspent outputs, FORKID mode, "
         "rule set): fully signed 1..5-input / 1..5-output spends of P2PKH / P2PK (compressed, uncompressed, SEC1 tag 05, hybrid) / 2-of-3 multisig / "
         "CLTV- and CSV-guarded P2PK outputs, every input signed by the library with its own type (six FORKID types, and the six legacy types "
         "when FORKID is not required), then one of 30 single-field mutations (version, lock time, sequence bits, outpoint, output amount / script / "
         "added / removed, spent amount / script, key, signature r / s / type byte / FORKID bit / high S / DER padding, truncation, length bytes / "
         "empty, multisig order, swapped unlocking scripts, duplicate input, P2SH output, overspend), the pre-check exits, and a grid of correctly "
         "signed CLTV / CSV spends over boundary lock times, sequences, versions and operands (every branch of check_locktime / check_sequence); the verdict INCLUDING "
         "the error variant is decided by the Lean reference (validateTx = interpreter + TransactionChecker + sighash models with Lean SHA-256 and "
         "secp256k1) and must be equal. Non-trivial: the unlocking script ran to completion (the outcome was decided by the "
         "locking script) is not observable; counted conservatively as unlocking scripts of at least two atoms.",
    nontrivial=lambda req, impl: (impl != "err:BadData") if req.startswith("c03.txv") else (not req.startswith("c03.spend") or len(req.split(" ")[2]) >= 4),
    trusted_base=["k256 ECDSA (signing, verification, DER and SEC1 parsing): checked against an independent Lean secp256k1/DER in the driver",
                  "ECDSA unforgeability and SHA-256 collision resistance are named assumptions, never proved",
                  "the interpreter model of C01/C07 (same differential tie)"],
    assumptions=["the attacker's unlocking scripts contain no valid signature (generator guarantee)"],
)
CLAIM = dict(
    text="Theorem: with the (repaired) two-phase structure of Tx::validate an input is accepted only if the locking script itself ran "
         "from its first opcode to completion on the stack left by the unlocking script and left a true top item - for every unlocking "
         "script; kernel-checked witnesses that the pinned single-program structure accepted OP_1 OP_RETURN and a lock-swallowing push. "
         "Correspondence: ~430k attacker unlocking scripts (bounded-exhaustive to length 2, sampled 3-4, grammar/hostile) against four "
         "key-locked templates through the real Tx::validate, plus signature canonicality judged by an independent verifier. Template "
         "soundness for EVERY unlocking script, initial stack and checker: P2PKH, P2PK and m-of-n multisig (all 1<=m<=n<=16) are accepted "
         "only if the lock's own check_sig calls answered true for the locked keys (C03_authorisation, C03_no_signature_no_spend_*); "
         "signature form: the DER framing is strict (BIP-66), 9..73 bytes with type byte, S normalised to the low half. Field coverage "
         "of the sighash types is under C02 (preimage injectivity).",
    note="Trusted: Lean kernel; k256; differential tie bounded by generators; cryptographic hardness assumed.",
)

HOOK_COMMITS = ["cb98774"]
NOTES = ("All checks: ./check <ID> --tier quick|thorough. Each run rebuilds the harness against /repo's working tree, "
         "regenerates constant tables, rebuilds + axiom-audits the Lean property module, then runs the correspondence. "
         "Known findings: /verif/known_findings.json. See DESIGN.md.")
NOT_YET = {}
CLAIMED = {}
CLAIMED["C19"] = dict(
    text="Kernel-checked theorems over a model of BlockHeader::hash/validate/difficulty_target and Hash256::cmp: validate = spec "
         "(int(hash) <= mantissa*256^(exp-3) and timestamp strictly above the median of the last <= 11) for all field values and "
         "predecessor lists of any length; numeric ordering for all lengths; exponent range -> error, never panic. The model is tied "
         "to the code by a differential run (all 256 exponents, target-adjacent hashes, median-adjacent timestamps).",
    note="Trusted: Lean kernel; the model<->code tie is differential (bounded by the generators); SHA-256 is a parameter in theorems "
         "and an independent Lean implementation in the driver.",
)

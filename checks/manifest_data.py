HOOK_COMMITS = ["cb98774", "f214a4d", "64adfa9"]
NOTES = ("All checks: ./check <ID> --tier quick|thorough. Each run rebuilds the harness against /repo's working tree, "
         "regenerates constant tables, rebuilds + axiom-audits the Lean property module, then runs the correspondence. "
         "Known findings: /verif/known_findings.json. See DESIGN.md.")
NOT_YET = {}
import props
CLAIMED = props.CLAIMS

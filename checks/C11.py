"""C11 — configuration of ./check C11 (PROP) and the MANIFEST claim (CLAIM)."""
PROP = dict(
    modules=["CG.Props.C11", "CG.Props.Compose"],
    required_theorems=["Compose_header_models_agree", "Compose_receive_real_messages", "Compose_receive_real_messages_prefix", "Compose_serTx_eq_wire", "Compose_varint_encoders_agree", "C11_areader_inv", "C11_read_all_or_nothing", "C11_stream_transparent",
                       "C11_refines_contiguous", "C11_terminates", "C11_independent_any_stream",
                       "C11_prefix", "C11_complete", "C11_eof_is_disconnect", "C11_fragmentation_independent",
                       "C11_stops_at_first_non_message", "C11_encoded_frames_valid", "C11_tables_wf"],
    rule="c11.recv: the crate's AtomicReader (hook VerifAtomicReader) over a scripted reader (per-call schedule; 0 = "
         "TimedOut/WouldBlock/alternating; end of stream = Ok(0)) driven by a line-for-line copy of the receive loop of "
         "connect_internal. (a) six streams of 48-59 bytes (two messages, or two plus a truncated third): every placement of "
         "1 cut x 0/1/2 timeouts, every placement of 2 cuts, every placement of 3 cuts on the 48-, 56- and 51-byte streams (all six in the "
         "thorough tier; 1500 sampled placements on the others in quick), timeouts at the cuts; (b) end of stream at every "
         "offset of four/ten streams x contiguous, single-byte and random delivery; (c) random sequences of 1-6 messages mixing "
         "payload-less (verack, sendheaders, getaddr, mempool, filterclear, sendaddrv2), small (ping, pong, feefilter, "
         "sendcmpct, inv, getdata, notfound, addr, tx), multi-kilobyte (tx with 1.5-9 kB scripts, headers, addr, inv, block) and "
         "unknown commands (incl. non-UTF-8), a quarter truncated mid-message, x contiguous / all single bytes / three random "
         "allowance families / dense random cut sets with timeouts; (d) corrupted streams (magic bit, oversize length, checksum "
         "field, payload bit, length of a payload-less command, length too long) and foreign-magic / random bytes; (e) c11.reads: "
         "AtomicReader::read alone with arbitrary request sizes (growing, shrinking, zero) under random schedules, per-call result "
         "F<bytes>/T/D = model. (f) c12.session (30 per quick run): the REAL receive loop of connect_internal over a loopback socket, "
         "conforming sessions whose several-hundred-byte payloads arrive frame by frame in 7-250-byte segments paced 1-2 ms apart, "
         "compared as in C12 (observer log, what the node received, final state). Compared for c11.recv: "
         "final error class, number of messages, per message command and 8 bytes of sha256d(payload): implementation = model "
         "(same schedule) = reference (contiguous parse; never sees the schedule). Every case runs the reader; distinct by request.",
    nontrivial=lambda req, impl: not impl.startswith("bad-request") and not impl.startswith("unknown-op"),
    trusted_base=["sha2 crate (sha256d) is the parameter H in theorems; an independent Lean SHA-256 in the driver",
                  "payload codecs are the parameter `decode` in theorems (used through decode(encode m) = m, the C05 law); identity on "
                  "(command, payload) in the driver, the harness compares the re-serialised payload of each decoded message",
                  "std::io::Read::read_exact (default loop) modelled by hand on top of the AtomicReader model",
                  "command classification (payload / payload-less / unknown) read off Message::read_partial's behaviour on every run"],
    assumptions=["the inner reader never returns ErrorKind::Interrupted and returns Ok(0) only at end of stream (std TcpStream contract)",
                 "64-bit usize (payload_size as usize is exact)",
                 "handle_message / subject publication / the connected flag are outside the reader logic (C12)"],
    explanation="Expected on the unchanged tree: holds.",
)

CLAIM = dict(
    text="Kernel-checked theorems over a model of AtomicReader::read, read_exact, MessageHeader::read/validate/payload, "
         "Message::read/read_partial and the receive loop of Peer::connect_internal, for a transport given as a byte stream plus an "
         "arbitrary per-call schedule (fragment sizes, timeouts/would-block, end of stream anywhere): the reader hands out exactly "
         "the next n bytes or nothing (retained ++ undelivered is always the unread suffix); for EVERY byte stream the messages "
         "emitted are a prefix of — and once the loop stops, exactly — what a contiguous parse of the stream gives, with the same "
         "final error, hence independent of the schedule; for valid frames followed by a strict frame prefix that is all the frames' "
         "messages in order, then a NotConnected disconnection, never a message from the incomplete tail; the loop stops within "
         "schedule + bytes + messages + 1 passes. Unbounded in frames, sizes and schedule length. Tied to the code by a differential "
         "run through the crate's own AtomicReader (exhaustive 1-3 cut placements on short streams, EOF at every offset, random dense "
         "schedules, corrupted streams).",
    note="Trusted: Lean kernel; the model<->code tie is differential (bounded by the generators); sha256d and the payload codecs are "
         "parameters of the theorems; ErrorKind::Interrupted from the socket is not modelled.",
)

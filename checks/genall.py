"""Writes lean/CG/Drv/All.lean from the driver modules present (each exports `handle`)."""
import os, re
def write_all(lean_dir):
    d = os.path.join(lean_dir, "CG", "Drv")
    ids = sorted(f[:-5] for f in os.listdir(d) if re.fullmatch(r"C\d\d\.lean", f))
    src = [f"import CG.Drv.{i}" for i in ids]
    src += ["/-! GENERATED from the driver modules present in CG/Drv. Do not edit. -/", "namespace CG.Drv", "def allHandlers : List (String → List String → Option String) :=",
            "  [" + ", ".join(f"{i}.handle" for i in ids) + "]", "end CG.Drv", ""]
    content = "\n".join(src)
    p = os.path.join(d, "All.lean")
    try:
        if open(p).read() == content:
            return False
    except FileNotFoundError:
        pass
    open(p, "w").write(content)
    return True
if __name__ == "__main__":
    import sys
    print(write_all(sys.argv[1]))

"""C19 — configuration of ./check C19 (PROP) and the MANIFEST claim (CLAIM)."""
PROP = dict(
    modules=["CG.Props.C19", "CG.Props.Genesis", "CG.Props.HashText"],
    required_theorems=["C19_serialisation_80", "C19_serialisation_injective", "C19_ord_numeric", "C19_target_value",
                       "C19_target_total", "C19_validate_eq_spec", "C19_validate_iff", "C19_validate_mono_timestamp", "C19_validate_mono_hash", "C19_validate_no_panic",
                       "C19_median_is_sorted_middle", "C19_genesis_blocks_consistent", "C19_hash_text_roundtrip", "C19_hash_text_length", "C19_hash_text_decode_total", "C19_hash_text_is_le_number"],
    rule="c19.hexenc / c19.hexdec (Hash256::encode / decode): random and boundary hashes; their text in lower, upper and mixed case; one "
         "character replaced by a non-digit (ASCII neighbours of the digit ranges, whitespace, 2-4 byte UTF-8 characters, a full-width "
         "digit); prefixes / suffixes (space, newline, 0x, extra digits); digit strings of every length 0..70 and 126..130. c19.validate: every exponent 0..255 x boundary mantissas x hash at target-1/target/target+1/random; predecessor "
         "lists of length 0..15 (+ some longer) with duplicates and a candidate below/at/above the median; c19.cmp: equal, "
         "adjacent, one-byte-different and random 256-bit pairs; c19.hash: random headers with boundary u32 fields. "
         "A case is non-trivial unless it ends in the exponent-range error; distinct by request line.",
    nontrivial=lambda req, impl: impl != "err:BadArgument",
    trusted_base=["sha2 crate (SHA-256) modelled as a parameter in theorems; compared with an independent Lean SHA-256 in the driver",
                  "Rust slice::sort modelled as List.mergeSort (proved equal to insertion sort on naturals)"],
    assumptions=["bits < 2^32, hash is 32 bytes (types guarantee it)", "mantissa sign bit clear (outside the claim otherwise)"],
)

CLAIM = dict(
    text="Kernel-checked theorems over a model of BlockHeader::hash/validate/difficulty_target and Hash256::cmp: validate = spec "
         "(int(hash) <= mantissa*256^(exp-3) and timestamp strictly above the median of the last <= 11) for all field values and "
         "predecessor lists of any length; numeric ordering for all lengths; exponent range -> error, never panic. The model is tied "
         "to the code by a differential run (all 256 exponents, target-adjacent hashes, median-adjacent timestamps). GENESIS "
         "(CG.Props.Genesis): for all seven networks the kernel evaluates, with the Lean SHA-256, that the declared genesis header "
         "(regenerated from the tree) hashes through the modelled 80-byte serialisation to the declared genesis hash, that its one "
         "transaction hashes to the header's Merkle root, and that BlockHeader::validate accepts it. TEXT FORM (CG.Props.HashText): "
         "Hash256::decode(encode h) = h; the 64-digit text denotes the little-endian number of the hash; decode accepts exactly 64 hex "
         "digits of either case and never panics (4 700 strings per run).",
    note="Trusted: Lean kernel; the model<->code tie is differential (bounded by the generators); SHA-256 is a parameter in theorems "
         "and an independent Lean implementation in the driver.",
)

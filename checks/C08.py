"""C08 — configuration of ./check C08 (PROP) and the MANIFEST claim (CLAIM)."""


def _nontrivial(req, impl):
    # a case counts when the code under test did its work: a key was derived, or the request went
    # through the path parser (whose rejections are part of the property); single-step requests that
    # die on an undecodable key (unknown version, key out of range) do not count.
    return impl.startswith("ok") or req.startswith("c08.path") or req.startswith("c08.vec")


PROP = dict(
    modules=["CG.Props.C08"],
    required_theorems=["C08_commute", "C08_commute_tree", "C08_commute_model", "C08_priv_eq_spec", "C08_pub_eq_spec",
                       "C08_xpub_eq_spec", "C08_layout", "C08_parse_path", "C08_path_eq_spec", "C08_errors",
                       "C08_key_range", "C08_key_range_partial", "C08_key_range_full_false",
                       "C08_pinned_ckdpub_differs", "C08_pinned_M_returns_private", "C08_pinned_parser_lenient",
                       "C08_eq_spec_full_false"],
    rule="corpus: BIP-32 test vectors 1-3 (every published xprv/xpub, every non-hardened suffix re-derived through M/... from "
         "the ancestor's xpub and xprv, the commutation square at each such step), the path-syntax list, inputs that failed on "
         "the unrepaired tree. Generated: private masters on both networks -> m/ paths of depth 0-6 with child numbers from "
         "{0,1,2,2^31-2,2^31-1,2^31,2^31+1,2^32-2,2^32-1,10^9,small,random} written with ', h, H or as raw numbers, leading "
         "zeros; M/ paths of depth 0-6 from public and private masters (and the same numbers through m/); rejection stream "
         "(hardened from public, m from a public master, marked >= 2^31, >= 2^32, doubled markers); masters at depth 249-255; "
         "64 fixed malformed paths + random character mutations of valid paths (incl. non-ASCII); single steps "
         "derive_private_key / derive_public_key / extended_public_key and the square N(CKDpriv)=CKDpub(N); byte strings that "
         "are not valid extended keys (version, key 0/n/n+1/2^256-1, pad byte, bad SEC1 tag, x off the curve, x >= p). "
         "Outcome = hex of the 78-byte result or the ChainGangError variant; spec = independent Lean HMAC-SHA512 + secp256k1. "
         "Non-trivial: a key was derived or the request went through the path parser; distinct by request line.",
    nontrivial=_nontrivial,
    trusted_base=["hmac/sha2 (HMAC-SHA512), ripemd/sha2 (HASH160) and k256 (secp256k1) are parameters in the theorems; in the "
                  "driver they are the independent Lean implementations CG.Crypto.{Hmac,Sha512,Hash160,Secp256k1}",
                  "k256 SecretKey::from_slice on 32 bytes modelled as the range check 0 < x < n, ScalarPrimitive::add as addition mod n, "
                  "PublicKey::try_from(ProjectivePoint) as 'not the identity' (checked differentially on keys 0, 1, n-1, n, n+1, 2^256-1); "
                  "PublicKey::from_sec1_bytes on 33 bytes as SEC1 decompression of tags 02/03 plus the sec1 crate's compact tag 05 (even y)",
                  "is_private_key_valid is crate-private and its inputs are HMAC outputs, so its model is tied to the code by reading only "
                  "(a re-export under the verif-hooks feature would allow a direct differential check)"],
    assumptions=["OpsOK: to_sec1_bytes of a non-identity point is 33 bytes, HMAC-SHA512 returns 64 bytes, HASH160 20 bytes, "
                 "x*G is not the identity for 0 < x < n, from_sec1_bytes inverts to_sec1_bytes",
                 "group laws for the commutation: (a+b)G = aG + bG, nG = 0, order of G exactly n (any additive commutative group)",
                 "model = BIP-32 is proved outside two events of probability ~2^-256 per step (I_L = 0: code rejects, BIP accepts; "
                 "k_i = 0: BIP rejects, code returns the zero key); C08_eq_spec_full_false shows the side condition is needed",
                 "theorems about derive_public_key / derive_extended_key are about the REPAIRED code (three C08 patches); the pinned "
                 "behaviour is characterised by the C08_pinned_* witness theorems"],
)

CLAIM = dict(
    text="Kernel-checked theorems over a model of wallet/extended_key.rs: N(CKDpriv(k,i)) = CKDpub(N(k),i) for every parent and "
         "non-hardened i in any additive commutative group with nG = 0 (and on the model of derive_private_key / "
         "extended_public_key / derive_public_key, byte for byte, including depth, fingerprint, child number, chain code); each "
         "derivation step and derive_extended_key along a path of any length equal BIP-32's CKDpriv / CKDpub / N folded over the "
         "parsed child numbers; the path parser accepts exactly m|M (/ digits ['|h|H])* with unmarked < 2^32, marked < 2^31; "
         "hardened-from-public, depth 255, private-from-public and malformed paths are errors and nothing panics, for all byte "
         "strings and path texts; the I_L check is exactly 0 < I_L < n. The model is tied to the code on every run by a "
         "differential check against an independent Lean HMAC-SHA512 + secp256k1 (BIP-32 vectors 1-3, ~3 900 cases quick, ~31 000 thorough), "
         "incl. runs of the same key material under another network / depth derived one after the other in one process.",
    note="Found and repaired on the pinned tree: derive_public_key added the offset point to itself (every public derivation "
         "wrong); path 'M' from a private master returned the private key; the parser accepted doubled hardened markers and a "
         "leading '+'. is_private_key_valid alone accepts some values >= n (byte-wise 'any position below' test); harmless "
         "because SecretKey::from_slice re-checks — recorded as C08_key_range_full_false. Trusted: Lean kernel; the model<->code "
         "tie is differential; crypto primitives are parameters in theorems.",
)

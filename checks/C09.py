"""C09 — configuration of ./check C09 (PROP) and the MANIFEST claim (CLAIM).

Besides the common correspondence (Rust harness `cgh` vs Lean driver) this property has a custom stage:
`address_to_public_key_hash`, `bytes_to_wif` and `wif_to_bytes` live in src/python/py_wallet.rs, which only exists
with the cargo feature `python`; the stage builds the extension from the same tree the harness is linked against
(cached under .build/target_py), calls the three functions on generated strings and compares with the Lean model
and specification through the same driver (ops `c09.py_*`)."""
import os, re, sys, json, subprocess, hashlib, random, shutil, time

ALPHA = "123456789ABCDEFGHJKLMNPQRSTUVWXYZabcdefghijkmnopqrstuvwxyz"


def _b58(b):
    n = int.from_bytes(b, "big") if b else 0
    s = ""
    while n:
        n, r = divmod(n, 58)
        s = ALPHA[r] + s
    z = len(b) - len(b.lstrip(b"\0"))
    return "1" * z + s


def _b58chk(p):
    return _b58(p + hashlib.sha256(hashlib.sha256(p).digest()).digest()[:4])


def _hex(s):
    b = s.encode("utf-8") if isinstance(s, str) else s
    return b.hex() if b else "-"


# strings that panicked on the pinned tree (first), then boundary cases
PY_CORPUS = ["3QJmnh", "", "1", "11", "111", "2g", "1111", _b58chk(b"\x00"), _b58chk(b"\x6f" + bytes(20)), "0", "é", "1" * 132]


def _py_requests(tier, seed):
    rng = random.Random(seed)
    reqs = []
    for s in PY_CORPUS:
        reqs.append(f"c09.py_a2pkh {_hex(s)} -")
        reqs.append(f"c09.py_wif2b {_hex(s)} -")
    n = 3000 if tier == "thorough" else 400
    for i in range(n):
        ln = rng.choice([0, 1, 2, 20, 21, 22, 33, 34, rng.randrange(0, 90)])
        p = bytes(rng.randrange(256) for _ in range(ln))
        if ln and rng.random() < 0.5:
            p = bytes([rng.choice([0x80, 0xef, 0x00, 0x6f, 0x05])]) + p[1:]
        if ln == 34 and rng.random() < 0.7:
            p = p[:-1] + b"\x01"
        s = _b58chk(p)
        reqs.append(f"c09.py_a2pkh {_hex(s)} -")
        reqs.append(f"c09.py_wif2b {_hex(s)} -")
        # one random single-character edit of it
        if s:
            j = rng.randrange(len(s))
            e = rng.choice([s[:j] + rng.choice(ALPHA) + s[j + 1:], s[:j] + s[j + 1:], s[:j] + rng.choice(ALPHA) + s[j:],
                            s[:j] + s[j + 1:j + 2] + s[j:j + 1] + s[j + 2:]])
            reqs.append(f"c09.py_a2pkh {_hex(e)} {_hex(s)}")
            reqs.append(f"c09.py_wif2b {_hex(e)} {_hex(s)}")
        # arbitrary text
        t = "".join(rng.choice(ALPHA) if rng.random() < 0.8 else chr(rng.choice([0x30, 0x20, 0x49, 0xe9, 0x4e2d, 0x1f600, rng.randrange(1, 0x250)]))
                    for _ in range(rng.randrange(0, 121)))
        reqs.append(f"c09.py_a2pkh {_hex(t)} -")
    for net in (0, 1):
        for i in range(40 if tier == "thorough" else 8):
            k = bytes(32) if i == 0 else bytes([1] * 32) if i == 1 else bytes(rng.randrange(256) for _ in range(rng.choice([32, 32, 32, 0, 31, 33])))
            reqs.append(f"c09.py_b2wif {net} {_hex(k)}")
    return reqs


_RUNNER = r'''
import sys, importlib.util
spec = importlib.util.spec_from_file_location("tx_engine", sys.argv[1])
t = importlib.util.module_from_spec(spec); spec.loader.exec_module(t)
PREFIX = [("A provided data is not valid", "BadData"), ("A provided argument is not valid", "BadArgument"), ("Base58 Error", "Base58Error"),
          ("K256 ecdsa Error", "K256EcdsaError"), ("K256 elliptic_curve Error", "K256EcError")]
def hx(b): return b.hex() if b else "-"
def unhex(h): return b"" if h == "-" else bytes.fromhex(h)
def run(f):
    try:
        return "ok:" + f()
    except ValueError as e:
        m = str(e)
        for p, v in PREFIX:
            if m.startswith(p): return "err:" + v
        return "err:ValueError"
    except BaseException as e:
        return "panic:" + type(e).__name__ if type(e).__name__ == "PanicException" else "exc:" + type(e).__name__
for line in sys.stdin:
    a = line.rstrip("\n").split(" ")
    if a[0] == "c09.py_a2pkh": o = run(lambda: hx(t.address_to_public_key_hash(unhex(a[1]).decode("utf-8"))))
    elif a[0] == "c09.py_wif2b": o = run(lambda: hx(t.wif_to_bytes(unhex(a[1]).decode("utf-8"))))
    elif a[0] == "c09.py_b2wif": o = run(lambda: hx(t.bytes_to_wif(unhex(a[2]), ["BSV_Mainnet", "BSV_Testnet"][int(a[1])]).encode()))
    else: o = "unknown-op"
    print(line.rstrip("\n") + "\t" + o)
'''


def custom_stage(pid, tier, seed, V, log):
    """python-feature functions of py_wallet.rs against the model; returns the dict ./check merges."""
    t0 = time.time()
    cargo = open(os.path.join(V, "harness", "Cargo.toml")).read()
    m = re.search(r'chain-gang\s*=\s*\{\s*path\s*=\s*"([^"]+)"', cargo)
    repo = m.group(1) if m else "/repo"
    target = os.path.join(V, ".build", "target_py")
    env = dict(os.environ, CARGO_NET_OFFLINE="true", CARGO_TARGET_DIR=target)
    p = subprocess.run(["cargo", "build", "--offline", "--quiet", "--lib", "--features", "python pyo3/extension-module"],
                       cwd=repo, env=env, capture_output=True, text=True, timeout=3000)
    so = os.path.join(target, "debug", "libchain_gang.so")
    if p.returncode != 0 or not os.path.exists(so):
        raise RuntimeError("python-feature build of the crate failed: " + p.stderr[-1500:])
    mod = os.path.join(target, "debug", "tx_engine.so")
    shutil.copyfile(so, mod)
    reqs = _py_requests(tier, seed)
    r = subprocess.run([sys.executable, "-c", _RUNNER, mod], input="\n".join(reqs) + "\n", capture_output=True, text=True, timeout=3000)
    impl = [l.split("\t") for l in r.stdout.split("\n") if l]
    if len(impl) != len(reqs):
        raise RuntimeError(f"python runner answered {len(impl)} of {len(reqs)} requests: " + r.stderr[-1500:])
    drv = os.path.join(V, "lean", ".lake", "build", "bin", "cgdrv")
    d = subprocess.run([drv], input="\n".join(reqs) + "\n", capture_output=True, text=True, timeout=3000)
    outs = [l for l in d.stdout.split("\n") if l]
    if len(outs) != len(reqs):
        raise RuntimeError("cgdrv did not answer every python-stage request")
    viol, hist, nontriv = [], {}, set()
    for (req, im), o in zip(impl, outs):
        parts = o.split("\t")
        model, spec = parts[0], parts[1]
        imn = "panic" if im.startswith("panic") else im
        cls = imn.split(":")[0]
        hist.setdefault(req.split(" ")[0], {}).setdefault(cls, 0)
        hist[req.split(" ")[0]][cls] += 1
        if imn != "err:Base58Error":
            nontriv.add(req)
        s_ok = spec == "*" or (spec.startswith("class:") and cls == spec[6:]) or imn == spec
        m_ok = model == "*" or imn == model
        if not s_ok:
            viol.append((req, imn, model, spec, parts[2] if len(parts) > 2 else ""))
        elif not m_ok:
            viol.append((req, imn, model, spec, "model-drift(py stage)"))
    log(f"[{pid}] python stage: {len(reqs)} calls into the extension, {len(viol)} disagreement(s), {round(time.time() - t0, 1)}s")
    return {"violations": viol, "evaluations": len(reqs), "distinct_nontrivial": len(nontriv),
            "samples": [{"request": impl[i][0][:200], "impl": impl[i][1][:120], "model": outs[i].split("\t")[0][:120]} for i in (0, len(impl) // 2)],
            "coverage": {"python_stage": {"calls": len(reqs), "outcome_histogram": hist,
                                          "functions": ["address_to_public_key_hash", "wif_to_bytes", "bytes_to_wif"]}}}


PROP = dict(
    modules=["CG.Props.C09"],
    required_theorems=["C09_b58_roundtrip", "C09_b58_injective", "C09_b58_string_injective", "C09_crate_roundtrip",
                       "C09_roundtrip_chk", "C09_roundtrip_addr", "C09_addr_encode_injective", "C09_roundtrip_wif", "C09_roundtrip_xkey",
                       "C09_roundtrip_xkey_network_type", "C09_roundtrip_pubkey_address", "C09_accept_needs_checksum",
                       "C09_corruption_changes_payload", "C09_single_edit_rejected_partial", "C09_short_rejected",
                       "C09_short_string_rejected", "C09_wrong_prefix_rejected", "C09_prefix_classes_disjoint",
                       "C09_wrong_prefix_rejected_wif_xkey", "C09_unknown_xkey_version", "C09_no_panic",
                       "C09_non_alphabet_is_error", "C09_pinned_panics", "C09_no_panic_pinned_full_false",
                       "C09_pinned_empty_payload_panics", "C09_crate_capacity_panic", "C09_alphabet_matches_crate"],
    custom_stage=custom_stage,
    rule="decoders (decode_base58_checksum, addr_decode under each of the 7 networks, wif_to_network_and_private_key + Wallet::from_wif, "
         "ExtendedKey::decode) on: every alphabet string of length 0..3 (0..2 for the non-checksum decoders in quick); for 28 address "
         "encodings (7 networks x 2 types x 2 hashes), 2 WIF and 4 constructor-built extended keys EVERY single-character substitution, "
         "insertion, deletion and adjacent transposition (spec: error unless equal to the original), each encoding also under all 7 networks "
         "and through the other decoders; 500 valid-checksum strings around unusual payloads; random alphabet strings of every length "
         "0..132 and random Unicode strings to 120 characters. Encoders: addr_encode, encode_base58_checksum (payload lengths 0..100), "
         "WIF (prefix+key+01), ExtendedKey::encode/new_*_key, public_key_to_address, each followed by the matching decode. Python stage: "
         "address_to_public_key_hash, wif_to_bytes, bytes_to_wif through the built extension. A case is non-trivial unless it ends in the "
         "alphabet error (Base58Error); distinct by request line.",
    nontrivial=lambda req, impl: impl != "err:Base58Error",
    trusted_base=["base58 crate 0.2.0 modelled as big-endian base conversion with a 132-byte buffer (validated by the correspondence: "
                  "exact strings and bytes compared)",
                  "sha2 (double SHA-256), ripemd (hash160), k256 SigningKey::from_slice are parameters in theorems; compared with independent "
                  "Lean implementations in the driver",
                  "prefix bytes, version words and the alphabet are regenerated from the crate on every run (CG/Generated/Tables.lean)"],
    assumptions=["the checksum hash returns at least 4 bytes (it is a [u8; 32])",
                 "strings of at most 132 characters (the property quantifies over 0..120); beyond that the base58 crate's own buffer "
                 "arithmetic can panic (C09_crate_capacity_panic) — outside the claim",
                 "that a corrupted string fails the 32-bit checksum is NOT proved (property of double SHA-256); it is enumerated for every "
                 "single edit of the generated encodings"],
    explanation="Theorems reduce acceptance of any string other than the original to a coincidence of the 4-byte checksum on different bytes "
                "(Base58 decoding is injective); the coincidence itself is excluded only by enumeration of all single edits.",
)

CLAIM = dict(
    text="Kernel-checked theorems over a model of the base58 crate (big-endian base conversion, leading zeros <-> '1', 132-byte buffer) and of "
         "encode/decode_base58_checksum, addr_encode/decode, the WIF functions, public_key_to_address, address_to_public_key_hash and "
         "ExtendedKey::encode/decode: decode(encode b) = b for all byte strings; decoding is injective on strings; payload, network and type "
         "come back for all 20-byte hashes x 2 types x 7 networks, all valid keys x 2 networks, all 78-byte keys, for any checksum function; "
         "a string is accepted only if its last four bytes are the checksum of the rest, and a different accepted string always yields a "
         "different payload; too-short strings and foreign prefixes are errors; no decoder panics on any string of <= 132 characters "
         "(repaired code; the pinned code's short-input panics are proved as witnesses). Tied to the code by a differential run including "
         "every single-character edit of 34 encodings and all strings of length <= 3.",
    note="Not proved: that a corrupted string fails the 32-bit checksum (hash property; enumerated instead). Strings longer than 132 characters "
         "can panic inside the base58 crate (outside the property's quantifier; modelled, not repaired). Trusted: Lean kernel; the "
         "model<->code tie is differential.",
)

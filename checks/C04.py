"""C04 — configuration of ./check C04 (PROP) and the MANIFEST claim (CLAIM)."""
import os, subprocess, hashlib


def _nontrivial(req, impl):
    f = req.split(" ")
    if impl in ("wrong-profile",) or impl.startswith("unknown-op"):
        return False
    if f[0] == "c04.tx":
        return f[5] != "-" and f[6] != "-"          # got past the two non-emptiness checks into the sums
    return f[-1] != "-"                              # payload with at least one transaction


def _release_stage(pid, tier, seed, V, log):
    """thorough tier only: build the harness with --release (overflow-checks = false: `+` wraps) and run the
    same generators through it; the driver evaluates the model in the `release` profile."""
    if tier != "thorough":
        return {}
    target = os.path.join(V, ".build", "target")
    env = dict(os.environ, CARGO_NET_OFFLINE="true", CARGO_TARGET_DIR=target)
    p = subprocess.run(["cargo", "build", "--offline", "--quiet", "--release"], cwd=os.path.join(V, "harness"), env=env,
                       capture_output=True, text=True, timeout=3000)
    if p.returncode != 0:
        raise RuntimeError("release harness does not build: " + p.stderr[-1500:])
    cgh = os.path.join(target, "release", "cgh")
    corpus = []
    d = os.path.join(V, "corpus", pid)
    if os.path.isdir(d):
        for fn in sorted(os.listdir(d)):
            for l in open(os.path.join(d, fn)):
                l = l.strip()
                if l and not l.startswith("#"):
                    corpus.append(l.split("\t")[0].replace(" dev ", " rel ", 1))
    outp = os.path.join(V, ".build", "run", "cgh-release-%d.out" % os.getpid())
    os.makedirs(os.path.dirname(outp), exist_ok=True)
    env2 = dict(env, CGH_OUT=outp)        # results go to a file: the library prints to stdout in places
    subprocess.run([cgh, "replay"], input="\n".join(corpus) + "\n", capture_output=True, text=True, timeout=3000, env=env2)
    out = open(outp, errors="replace").read()
    subprocess.run([cgh, "gen", pid, "quick", str(seed + 7)], capture_output=True, text=True, timeout=3000, env=env2)
    out += open(outp, errors="replace").read()
    os.remove(outp)
    cases = [l.split("\t") for l in out.split("\n") if l]
    drv = os.path.join(V, "lean", ".lake", "build", "bin", "cgdrv")
    rep = subprocess.run([drv], input="\n".join(c[0] for c in cases) + "\n", capture_output=True, text=True, timeout=3000).stdout.split("\n")
    viol, distinct, hist = [], set(), {}
    for (req, impl), r in zip(cases, rep):
        impl = "panic" if impl.startswith("panic") else impl
        model, spec = (r.split("\t") + ["*"])[:2]
        if " rel " not in req:
            viol.append((req, impl, model, spec, "release-binary-did-not-report-rel")); continue
        ok_spec = (spec == "*") or (spec == "nopanic" and not impl.startswith("panic")) or (spec.startswith("class:") and impl.split(":")[0] == spec[6:])
        if not ok_spec or (model != "*" and model != impl):
            viol.append((req, impl, model, spec, "release-profile"))
        hist[impl] = hist.get(impl, 0) + 1
        if _nontrivial(req, impl):
            distinct.add(hashlib.sha1(req.encode()).hexdigest())
    return dict(violations=viol, evaluations=len(cases), distinct_nontrivial=len(distinct),
                samples=[{"request": c[0][:300], "impl": c[1]} for c in cases[:2]],
                coverage={"release_profile_histogram": hist})


PROP = dict(
    modules=["CG.Props.C04"],
    required_theorems=["C04_max_satoshis_is_21M", "C04_accept_implies_spec", "C04_accept_iff", "C04_never_panics",
                       "C04_profile_independent", "C04_reject_is_error",
                       "C04_blocktxn_accept_implies_spec", "C04_blocktxn_never_panics", "C04_blocktxn_reject_is_error",
                       "C04_cmpctblock_accept_implies_spec", "C04_cmpctblock_never_panics", "C04_cmpctblock_reject_is_error",
                       "C04_witness_pinned_release_wraps", "C04_witness_pinned_dev_panics", "C04_witness_pinned_duplicate_inputs",
                       "C04_witness_pinned_payload", "C04_pinned_violates_accept_implies_spec"],
    rule="c04.tx: Tx::validate on structure-aware transactions: 1-8 inputs spending generated unspent outputs with trivially true "
         "scripts, 1-300 outputs summing to at most the inputs; 3/4 of the cases then receive 1-3 mutations (amount from the i64 "
         "boundary pool in an output or map entry, repeated outpoint, missing / extra / shadowed map entry, lock time at 2^31-1 / 2^31 / "
         "2^32-1, coinbase reference, failing script, P2SH output and near misses, empty input/output list, 2-300 outputs each at the "
         "limit or a fraction of it, amount lists whose exact sum is >= 2^63 or exactly 2^64, outputs = inputs +-1, the double-spend "
         "shape); both rule sets, both FORKID modes, random pre-genesis sets. c04.blocktxn / c04.cmpct: 0-5 transactions with 0-300 "
         "outputs from the same pools, Cmpctblock also through Message::write + Message::read. Outcome ok / err:<Variant> / panic "
         "compared with the model; spec: not accepted by the exact-integer specification => must be an error, otherwise must not panic. "
         "A case is non-trivial if it got past the non-emptiness checks into the summation; distinct by request line. "
         "Thorough additionally runs the corpus and a quick-size batch through a --release build (wrapping arithmetic).",
    nontrivial=_nontrivial,
    custom_stage=_release_stage,
    trusted_base=["the per-input script evaluation is an oracle parameter in the theorems (the interpreter is C01/C03/C07's subject); "
                  "in the correspondence only scripts over {OP_0, OP_1} are used and decided by a 5-line evaluator in the driver",
                  "LinkedHashMap<OutPoint,TxOut> modelled as a partial function; HashSet::insert modelled as list membership"],
    assumptions=["the script oracle does not panic (C07) — needed for C04_never_panics / C04_reject_is_error only",
                 "lock_time < 2^32, output index < 2^32 (types guarantee it)"],
    explanation="The theorems are about the model of the tree WITH proposed_fixes/C04-checked-sums.patch and C04-duplicate-inputs.patch; "
                "the model of the pinned tree is refuted by the C04_witness_pinned_* theorems and the same inputs are in corpus/C04.",
)

CLAIM = dict(
    text="Kernel-checked theorems over a model of Tx::validate, Blocktxn::validate and Cmpctblock::validate (i64 sums modelled per build "
         "profile: overflow panics in dev, wraps in release): for every transaction, unspent-output map, script oracle, rule set and "
         "profile, acceptance implies the exact-integer conservation specification (inputs present and pairwise distinct, no negative "
         "amount, both exact sums <= 21e14, outputs <= inputs, lock time <= 2^31-1, no coinbase reference, scripts pass) — in fact "
         "acceptance is characterised exactly (iff) —, validation never panics and both profiles agree on every input; every rejected "
         "case is an Err. Same three theorems for the two payload validators. MAX_SATOSHIS is regenerated from the tree and proved to "
         "be 21e14. The model is tied to the code by a differential run over the i64 boundary pool; the script clause is decided per input "
         "by the two-phase script model under the rule set Tx::validate selects for THAT input (Genesis / pre-genesis mark), timelock "
         "opcodes answered by the model of TransactionChecker::check_locktime/check_sequence (multi-input cases with per-input script "
         "pairs, marks and sequence numbers).",
    note="Holds for the tree with the two proposed fixes (checked sums; duplicate-input rejection). On the pinned tree the property is "
         "false: witness theorems + corpus replays (i64::MAX + i64::MAX panics in dev / wraps to -2 and is accepted in release; one "
         "outpoint spent twice is accepted). Script evaluation is an oracle here.",
)

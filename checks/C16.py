"""C16 — script construction, templates and text form: configuration of ./check C16 (PROP) and the MANIFEST claim (CLAIM).

Standard stage (Rust harness vs Lean driver): append_data / append_num / the P2PKH helpers / generate_signature and the text
printer `Script::string_representation(false)`.  Custom stage: the text parser `Script.parse_string` only exists with the cargo
feature `python`, so the round trip text -> script is run through the built PyO3 extension (checks/pyext.py) on the same
scripts the standard stage printed (`cgh gen C16 <tier>-text <seed>`), and compared with the Lean printer/parser model.
pre_build regenerates lean/CG/Generated/OpNames.lean (the printer's names for all 256 opcode bytes and the OP_CODE_NAMES table)
from the current tree, so the name-table obligations of the round-trip theorem are re-proved against it on every run.
"""
import os, sys, subprocess, random, time, hashlib

sys.path.insert(0, os.path.dirname(os.path.abspath(__file__)))
import pyext


# ------------------------------------------------------------------------------------------ generated name tables
def _chars(s):
    return "[" + ", ".join("'" + c + "'" for c in s) + "]"


def render_opnames(reply):
    body = reply.split("\t", 1)[1]
    if not body.startswith("ok:"):
        raise RuntimeError("c16.names failed: " + body[:200])
    p, q = body[3:].split("|")
    pn = [bytes.fromhex(x).decode() for x in p.split(",")]
    qn = [(bytes.fromhex(x.split("=")[0]).decode(), int(x.split("=")[1])) for x in q.split(",") if x]
    if len(pn) != 256:
        raise RuntimeError("printer table does not have 256 entries")
    for s in pn + [n for n, _ in qn]:
        if not s or not all(c.isalnum() or c in "_-" for c in s):
            raise RuntimeError("unexpected character in an opcode name: " + repr(s))
    src = ["/-! GENERATED on every `./check C16` from the current tree: `Script::string_representation(false)` on the 256",
           "one-byte scripts (entries 1..78, the push opcodes, are `-`) and the OP_CODE_NAMES table of",
           "src/python/op_code_names.rs. Do not edit. -/", "namespace CG.Generated", "",
           "def PRINTER_NAMES : List (List Char) := ["]
    src += ["  " + _chars(s) + ("," if i < 255 else "") for i, s in enumerate(pn)]
    src += ["]", "", "def PARSER_NAMES : List (List Char × Nat) := ["]
    src += ["  (" + _chars(n) + ", " + str(v) + ")" + ("," if i < len(qn) - 1 else "") for i, (n, v) in enumerate(qn)]
    src += ["]", "", "end CG.Generated", ""]
    return "\n".join(src)


def pre_build(V, log):
    cgh = os.path.join(V, ".build", "target", "debug", "cgh")
    r = subprocess.run([cgh, "replay"], input="c16.names\n", capture_output=True, text=True, timeout=120)
    if r.returncode != 0 or not r.stdout.startswith("c16.names\t"):
        raise RuntimeError("cgh replay c16.names failed: " + r.stderr[-500:])
    content = render_opnames(r.stdout.split("\n")[0])
    path = os.path.join(V, "lean", "CG", "Generated", "OpNames.lean")
    try:
        if open(path).read() == content:
            return None
    except FileNotFoundError:
        pass
    with open(path, "w") as f:
        f.write(content)
    return "CG/Generated/OpNames.lean changed (printer / parser name tables of the current tree)"


# ------------------------------------------------------------------------------------------ python stage
_RUNNER = r'''
import sys, importlib.util, hashlib
spec = importlib.util.spec_from_file_location("tx_engine", sys.argv[1])
t = importlib.util.module_from_spec(spec); spec.loader.exec_module(t)
def unhex(h): return b"" if h == "-" else bytes.fromhex(h)
def compact(b):
    if not b: return "-"
    if len(b) <= 120: return b.hex()
    return "#%d.%s" % (len(b), hashlib.sha256(hashlib.sha256(b).digest()).digest().hex())
def varint(n):
    if n < 0xfd: return bytes([n])
    if n <= 0xffff: return b"\xfd" + n.to_bytes(2, "little")
    if n <= 0xffffffff: return b"\xfe" + n.to_bytes(4, "little")
    return b"\xff" + n.to_bytes(8, "little")
def run(f):
    try:
        return "ok:" + f()
    except BaseException as e:
        n = type(e).__name__
        return "panic:" + n if n == "PanicException" else "exc:" + n
def text(raw):
    s = t.Script.parse(varint(len(raw)) + raw)
    if bytes(s.raw_serialize()) != raw or bytes(t.Script([raw]).raw_serialize()) != raw: return "constructor-mismatch"
    txt = s.to_string()
    if repr(s) != txt: return "repr-differs-from-to_string"
    s2 = t.Script.parse_string(txt)
    return compact(txt.encode("utf-8")) + ":" + compact(bytes(s2.raw_serialize()))
for line in sys.stdin:
    a = line.rstrip("\n").split(" ")
    if a[0] == "c16.text": o = run(lambda: text(unhex(a[1])))
    elif a[0] == "c16.parse": o = run(lambda: compact(bytes(t.Script.parse_string(unhex(a[1]).decode("ascii")).raw_serialize())))
    else: o = "unknown-op"
    print(line.rstrip("\n") + "\t" + o)
'''

_NAMES = ["OP_0", "OP_FALSE", "OP_PUSHDATA1", "OP_PUSHDATA2", "OP_PUSHDATA4", "OP_1NEGATE", "OP_1", "OP_TRUE", "OP_16", "OP_NOP", "OP_VER", "OP_IF",
          "OP_DUP", "OP_HASH160", "OP_EQUALVERIFY", "OP_CHECKSIG", "OP_INVERT", "OP_LSHIFT", "OP_MUL", "OP_2MUL", "OP_CHECKSEQUENCEVERIFY",
          "OP_RESERVED", "OP_NOP1", "OP_NOP10", "OP_PUBKEY", "op_dup", "OP_"]


def _hex(b):
    return b.hex() if b else "-"


def _parse_requests(tier, seed):
    """token soups over the printer's alphabet (names, decimal numbers, 0x-hex) and its near misses, for the parser model"""
    rng = random.Random(seed * 7919 + 16)
    nums = [-1, 0, 1, 16, 17, 75, 76, 127, 128, 131, 255, 256, 32767, 32768, 8388607, 8388608, 2147483647, -2147483647, 2147483648, -2147483648,
            9223372036854775807, -9223372036854775808, 9223372036854775808, -9223372036854775809, 99999999999999999999]

    def tok():
        r = rng.randrange(20)
        if r < 5:
            return rng.choice(_NAMES)
        if r < 9:
            n = rng.choice(nums) if rng.random() < 0.5 else rng.randrange(-200, 400)
            return rng.choice(["", "", "", "+", "0", "00"]) + str(n) if n >= 0 else str(n)
        if r < 15:
            n = rng.choice([0, 1, 1, 2, 3, 20, 75, 76, 77, 255, 256, 300]) if rng.random() < 0.9 else rng.randrange(0, 700)
            h = bytes(rng.randrange(256) for _ in range(n)).hex()
            if rng.random() < 0.1:
                h = h.upper()
            return "0x" + h
        if r == 15:
            return rng.choice(["0x1", "0xzz", "0x123", "0X12", "x", "-", "+", "b", "0", "7", "b'", "b''", "b'ab'", "'ab'", '"hello"', "''", "ab", "OP", "0x"])
        if r == 16:
            return "b'" + "".join(rng.choice("abcXYZ019_") for _ in range(rng.randrange(0, 6))) + "'"
        if r == 17:
            return "'" + "".join(rng.choice("abcXYZ019_") for _ in range(rng.randrange(0, 6))) + "'"
        return rng.choice(["OP_PUSHDATA1", "OP_PUSHDATA2", "OP_PUSHDATA4"])

    reqs = []
    for fixed in ["", " ", ",", "OP_1", "OP_PUSHDATA2 0x0300 0x010203 0x1234", "OP_1 131", "OP_PUSHDATA4 0x01000000 0x09 17 0x12 0x34 0x56", "OP_PUSHDATA1 76 17 17",
                  "OP_PUSHDATA2 OP_PUSHDATA1 0x01 0x02 0x03", " OP_DUP,,OP_HASH160\n\n0x1234 ,\n OP_EQUALVERIFY  ", "x", "-", "0x1", "2147483648", "b'"]:
        reqs.append("c16.parse " + _hex(fixed.encode()))
    n = 6000 if tier == "thorough" else 1200
    for _ in range(n):
        k = rng.randrange(1, 9)
        seps = [rng.choice([" ", " ", " ", ",", "\n", "  ", ", ", " ,\n "]) for _ in range(k)]
        s = rng.choice(["", "", " ", "\n"]) + "".join(tok() + sp for sp in seps)
        if rng.random() < 0.5:
            s = s.rstrip(" ,\n") if rng.random() < 0.7 else s
        reqs.append("c16.parse " + _hex(s.encode()))
    return reqs


def _corpus_py(V):
    """python-stage corpus lines are kept as `#py <request>` comments (the standard stage skips comment lines)"""
    d = os.path.join(V, "corpus", "C16")
    out = []
    if os.path.isdir(d):
        for fn in sorted(os.listdir(d)):
            for l in open(os.path.join(d, fn)):
                if l.startswith("#py "):
                    out.append(l[4:].rstrip("\n").split("\t")[0])
    return out


def _text_requests(V, tier, seed):
    cgh = os.path.join(V, ".build", "target", "debug", "cgh")
    outp = os.path.join(V, ".build", "run", f"cgh-c16text-{os.getpid()}.out")
    os.makedirs(os.path.dirname(outp), exist_ok=True)
    r = subprocess.run([cgh, "gen", "C16", tier + "-text", str(seed)], capture_output=True, text=True, timeout=3000, env=dict(os.environ, CGH_OUT=outp))
    if r.returncode != 0:
        raise RuntimeError("cgh gen C16 <tier>-text failed: " + r.stderr[-1000:])
    reqs = []
    for l in open(outp):
        req = l.split("\t")[0]
        if req.startswith("c16.print "):
            reqs.append("c16.text " + req.split(" ")[1])
    os.remove(outp)
    return reqs


def custom_stage(pid, tier, seed, V, log):
    t0 = time.time()
    so = pyext.build_ext(V)
    reqs = _corpus_py(V) + _text_requests(V, tier, seed) + _parse_requests(tier, seed)
    impl = pyext.run_runner(so, _RUNNER, reqs)
    outs = pyext.run_driver(V, reqs)
    # the driver names the panic site (`panic:<site>`), the runner only sees PanicException: compare the class
    outs = ["\t".join(["panic" if i == 0 and f.startswith("panic") else f for i, f in enumerate(o.split("\t"))]) for o in outs]
    viol, hist, nontriv = pyext.compare(impl, outs, nontrivial=lambda req, im: im.startswith("ok"))
    sigs = {}
    for v in viol:
        sigs[v[4] or "-"] = sigs.get(v[4] or "-", 0) + 1
    log(f"[{pid}] python stage: {len(reqs)} calls into the extension ({sum(1 for r in reqs if r.startswith('c16.text'))} text round trips), "
        f"{len(viol)} case(s) differing from the identity or the model {sigs}, {round(time.time() - t0, 1)}s")
    pick = [i for i in (0, len(impl) // 3, 2 * len(impl) // 3) if i < len(impl)]
    return {"violations": viol, "evaluations": len(reqs), "distinct_nontrivial": len(nontriv),
            "samples": [{"request": impl[i][0][:200], "impl": impl[i][1][:160], "model": outs[i].split("\t")[0][:160]} for i in pick],
            "coverage": {"python_stage": {"calls": len(reqs), "outcome_histogram": hist, "differing_by_sig": sigs,
                                          "functions": ["Script.parse", "Script.__new__", "Script.to_string", "Script.__repr__", "Script.parse_string", "Script.raw_serialize"]}}}


PROP = dict(
    modules=["CG.Props.C16"],
    required_theorems=["C16_push_shortest_class", "C16_push_eq_spec", "C16_push_evaluates_to_data", "C16_push_num", "C16_push_num_out_of_range",
                       "C16_lock_recognised", "C16_unlock_recognised", "C16_unlock_window_table", "C16_unlock_pinned_rejects_short",
                       "C16_pushes_evaluate_to_data", "C16_text_roundtrip_partial", "C16_text_roundtrip_no_pushdata24", "C16_text_pushdata_token_count_witness",
                       "C16_text_unnamed_opcode_witness", "C16_text_roundtrip_full_false", "C16_name_tables"],
    pre_build=pre_build,
    custom_stage=custom_stage,
    rule="c16.push: append_data for every length 0..300 and 65500..65570, 32767/32768, 69999/70000 and random lengths to 70000 (data = arithmetic "
         "byte sequence or literal), evaluated with eval_with_stack under both rule sets: prefix bytes, length, double SHA-256 of the script and of the "
         "top stack item. c16.num: append_num on the i32 boundary pool (0, +-1, +-16/17, +-75/76, +-(2^(8k-1)-1), +-2^(8k-1), +-(2^31-1), i32::MIN) and "
         "random i32, decoded back with decode_num. c16.lock: create_lock_script / check / extract / check_addr (own and foreign hash). c16.unlock: "
         "create_unlock_script for every signature length 0..80 x key lengths {33,65,0,1,32,34,64,66,75,76} and random ones to 300. c16.gensig / "
         "c16.libsig: generate_signature on 12 (thorough 60) keys x 450 (1200) digests, all sighash bytes, keeping the first 12 and up to 6 signatures of "
         "<= 70 bytes per key, through create_unlock_script / check / extract / check_addr (spec: strict DER, 9..73 bytes, recognised, key returned). "
         "c16.chk: the recognisers on mutated templates (byte edits, truncation, insertion). c16.print: the printer on grammar scripts (every opcode "
         "the interpreter executes, reserved and invalid opcodes, all four push classes, empty pushes, truncated pushes, pushes of 65535/65536/70000 "
         "bytes), each push class x 11 followers. Python stage: the same scripts through Script.parse / to_string / parse_string of the built "
         "extension (c16.text; spec = the original bytes when every push is complete and every opcode is executed by the interpreter), and token "
         "soups for the parser model (c16.parse). Non-trivial = outcome ok (the call reached the code under test and produced a script/text).",
    nontrivial=lambda req, impl: impl.startswith("ok"),
    trusted_base=["k256 ECDSA signing and DER encoding are not modelled: library signatures are generated by the harness and checked against the "
                  "strict-DER length envelope 9..73 (C16_unlock_recognised takes that envelope as its hypothesis)",
                  "regex crate `[ ,\\n]+` split and str::trim modelled for ASCII text without tab/CR/FF/VT (the printer emits none)",
                  "hex crate encode/decode, Rust integer formatting ({}, {:#04x}, {:02x}) and str::parse::<i64> modelled by hand; compared on every run",
                  "interpreter model CG.Model.Interp (tied to the code by C01/C07) for the evaluation of pushes"],
    assumptions=["data shorter than 2^32 bytes (a PUSHDATA4 length field)", "usize is 64 bits (len as u8 / len >> 8 chains)",
                 "the text-form round trip is claimed for scripts whose pushes are complete; truncated scripts are compared with the model only"],
    explanation="Two recorded text-form defects are known findings (the token grammar is the maintainers' call): the parser's pushdata counter "
                "(3/5 tokens for PUSHDATA2/4 against the printer's 2) and opcodes the printer has no name for (INVERT, LSHIFT, RSHIFT, NOP1, "
                "NOP4-10 among the executed ones). The driver names the cause by re-running the model with one defect repaired at a time.",
)

CLAIM = dict(
    text="Kernel-checked theorems over models of Script::append_data/append_num, the P2PKH helpers, the text printer "
         "string_representation(false) and the python-feature parser parse_string/decode_op/handle_pushdata with both name tables regenerated from "
         "the tree: a push built for any data < 2^32 bytes uses the shortest class with a little-endian length field and evaluates (any checker, "
         "any flags) to exactly that data, and so does ANY LIST of such pushes built one after the other, each at whatever offset it lands (C16_pushes_evaluate_to_data; c16.pushn compares every item); a pushed number in [-(2^31-1), 2^31-1] decodes back, others are errors; lock scripts are recognised and "
         "yield the hash; unlock scripts built from any 9..73-byte signature and 33-byte key are recognised and yield the key (repaired window; the "
         "pinned 71..73 window is a proved witness); parse(print s) = s at character level for every well-formed script that satisfies an exact, "
         "decidable safety condition (all opcodes named, no direct push while the PUSHDATA2/4 counter is positive), with kernel-checked witnesses "
         "for both recorded defects and the negation of the full statement. Tied to the code by ~14k Rust-side cases and ~9k calls into the built "
         "PyO3 extension per run.",
    note="Fix proposed: check_unlock_script lower bound 71 -> 9 (proposed_fixes/C16-unlock-script-window.patch). Known findings: "
         "text-pushdata-token-count, text-unnamed-opcode. Not proved: ECDSA/DER signature length (hypothesis 9..73; checked on generated "
         "signatures). Trusted: Lean kernel; the model<->code tie is differential.",
)

"""C14 — configuration of ./check C14 (PROP) and the MANIFEST claim (CLAIM)."""
PROP = dict(
    modules=["CG.Props.C14", "CG.Props.Block"],
    required_theorems=["C14_root_eq_spec", "C14_block_root_check", "C14_depth_exact", "C14_traverse_eq_extract",
                       "C14_traverse_eq_extract_any_depth", "C14_sound", "C14_complete", "C14_no_panic", "C14_zero_count",
                       "C14_short_depth_misreads", "C14_root_by_position", "C14_root_small", "C14_built_proof_accepted",
                       "C14_node_counter_reaches_total", "C14_node_guard_is_dead",
                       "Block_validate_iff", "Block_validate_accepts_only_merkle_root", "Block_validate_total",
                       "Block_validate_error_sources", "Block_heights_table", "Block_rule_selection", "Block_inputs_spec"],
    rule="c14.blockv (the WHOLE of Block::validate): blocks assembled from kind letters (c coinbase, v anyone-can-spend, x missing "
         "utxo, g spendable under the Genesis rules only, l legacy-signed = valid only where FORKID is not required, f FORKID-signed) "
         "x all seven networks x heights around the four activation heights (regenerated from the tree) and the i32 extremes x right / "
         "wrong header root; outcome class compared with the block model and with the characterisation of Block_validate_iff; "
         "c14.binputs: Block::inputs on blocks with repeated outpoints. "
         "c14.mb (MerkleBlock::validate on a directly built struct): every matched subset for counts 1..7 (thorough 1..10) "
         "as explicit proofs, counts up to 600 with single / last / few / empty random subsets; declared counts 2^k-1, 2^k, 2^k+1 "
         "(k = 1..31), 2^32-1 and a few irregular large counts with sparse proofs along the left, right and a random spine, two "
         "spines, several leaves, neighbouring leaves and no match; for the small proofs, for n near powers of two and for the "
         "large counts every single-bit flip of the flag bytes (padding included), every hash altered / duplicated from its "
         "neighbour / removed / swapped, surplus hashes and flag bytes, missing flag byte, empty flags, empty hashes, declared "
         "count 0, n-1, n+1, n+2, 2n, (n+1)/2, 2n±1, next powers of two, 2^31, 2^31+1, 2^32-1, altered root; malformed objects "
         "(random flag bytes, hashes from a pool of six so that equal siblings occur, header root set to what a reference "
         "extractor computes so that the all-consumed checks are reached). c14.built: proof built by the Lean reference builder "
         "(model side) and by the harness builder (implementation side) for seeded ids and dense random masks, counts 1..600; "
         "expected answer = the masked ids in block order. c14.block (Block::validate with real transactions whose other checks "
         "pass): 1..34 (thorough 1..130) and larger counts, claimed root right / bit-flipped / computed without last-node "
         "duplication / of the list without its last id / of the reversed list / last transaction repeated. "
         "Non-trivial = got past the count-is-zero (c14.mb) argument check; distinct by request line.",
    nontrivial=lambda req, impl: not req.startswith("c14.mb 0 "),
    trusted_base=["sha2 crate (SHA-256) modelled as the parameter H in theorems; compared with an independent Lean SHA-256 in the driver",
                  "usize is 64 bits (the counter-overflow panic site is modelled at 2^64)",
                  "Tx::hash = sha256d of Tx::write's bytes (the c14.block driver hashes the request's transaction bytes itself)"],
    assumptions=["total_transactions < 2^32 (u32 field)", "hashes are compared as byte strings; the request always carries 32-byte hashes",
                 "C14_built_proof_accepted assumes no two sibling subtrees of the block's Merkle tree hash equal (true for distinct "
                 "txids unless SHA-256d collides) — with equal siblings BIP-37 itself rejects the proof"],
)

CLAIM = dict(
    text="Kernel-checked theorems over a model of Block::merkle_root / Block::validate's root check and of MerkleBlock::validate/"
         "traverse/consume_flag/consume_hash: the queue reduction is the level-by-level Bitcoin Merkle root (= the root by tree "
         "position) for every non-empty id list, and the root check accepts exactly that root; the integer depth is ceil(log2 n) "
         "for all 1 <= n < 2^32; for EVERY declared count, flag bytes, hash list and header root the counter-based traversal "
         "returns exactly what the position-based BIP-37 reference extractor returns (same matches in the same order, or BadData) "
         "— hence sound and complete w.r.t. the reference — and never panics (its third guard, 'Not all nodes consumed', is proved "
         "unreachable: the model equals the model without it); a proof built by the reference BIP-37 builder for "
         "any count and any matched subset is accepted and yields exactly the matched ids in block order (given no equal sibling "
         "hashes). Tied to the code by a differential run (counts 1-600, every subset for small counts, 2^k and 2^k±1 up to 2^31 "
         "with sparse proofs, all single-bit / single-hash / count mutations, malformed objects, real blocks). BLOCK MODEL "
         "(CG.Props.Block): the whole of Block::validate is characterised for every block, height, network and Tx::validate behaviour - "
         "accepted iff the root check passes, exactly one transaction is a coinbase and every other one validates under the rule flags "
         "selected by network and height (activation heights regenerated from the tree and pinned; selection monotone, Genesis implies "
         "FORKID) - never panics, every rejection has one of four sources; Block::inputs returns the spent outpoints iff pairwise "
         "distinct. Tied to the code by 3 400 assembled blocks per run (7 networks x heights around the activation heights x kind "
         "strings incl. Genesis-only and legacy-signed spends).",
    note="The pinned tree computed the depth with f32 and rejected valid proofs for counts just above 2^k, k >= 21 "
         "(proposed_fixes/C14-integer-depth.patch); the model describes the repaired code and the 2^k+1 cases stay in corpus/C14. "
         "Spec decisions: BIP-37's checks (all hashes consumed, all bits consumed up to byte padding, equal children invalid, root "
         "match, count 0 invalid); Core's extra `hashes > count` pre-check is implied by all-consumed and its block-size bound on "
         "the count is a Core constant not applicable to BSV; the header's proof of work is C19's subject. SHA-256d is a parameter "
         "in theorems and an independent Lean implementation in the driver.",
)

"""Turns `cgh tables` output into CG/Generated/*.lean (rewritten only when content changes)."""
import os

def write_if_changed(path, content):
    try:
        if open(path).read() == content:
            return False
    except FileNotFoundError:
        pass
    os.makedirs(os.path.dirname(path), exist_ok=True)
    with open(path, "w") as f:
        f.write(content)
    return True

def write_generated(tables_out, gendir):
    consts = []
    lists = {}
    for line in tables_out.split("\n"):
        if not line.strip():
            continue
        parts = line.split(" ")
        if parts[0] == "LIST":          # LIST <name> <v0> <v1> ...   (naturals)
            lists[parts[1]] = parts[2:]
        else:
            consts.append((parts[0], parts[1]))
    src = ["/-! GENERATED on every run by `cgh tables` from the current /repo tree. Do not edit. -/",
           "namespace CG.Generated", ""]
    for n, v in consts:
        src.append(f"def {n} : Nat := {v}")
    for n, vs in lists.items():
        src.append(f"def {n} : List Nat := [{', '.join(vs)}]")
    src += ["", "end CG.Generated", ""]
    changed = []
    if write_if_changed(os.path.join(gendir, "Tables.lean"), "\n".join(src)):
        changed.append("Tables.lean")
    return changed

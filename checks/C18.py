"""C18 — configuration of ./check C18 (PROP) and the MANIFEST claim (CLAIM).

Standard stage: the Rust harness (`harness/src/c18.rs`) executes every request through the RUST API, routed the way
`src/python/*.rs` is meant to route it, and the Lean driver (`CG.Drv.C18`) answers the model (`CG.Model.PyGlue` on top of
the interpreter / number-codec / signature-hash models) and the specification `nopanic`.

Python stage (`custom_stage`): the extension is built from the same tree (`checks/pyext.py`), `context.py` / `util.py` are
loaded from that tree by path, and the SAME request lines (corpus + `cgh gen`) are executed through the Python API.  The
outcome string must equal the Rust side's; a `pyo3_runtime.PanicException` is `panic`, every ordinary exception is `err`.
A disagreement is reported as the tuple (request, python outcome, rust outcome as model, spec, sig).
"""
import os, sys, time, subprocess

sys.path.insert(0, os.path.dirname(os.path.abspath(__file__)))
import pyext  # noqa: E402

_RUNNER = r'''
import sys, os, types, importlib, importlib.util
so, repo = sys.argv[1], sys.argv[2]
# results go to a private copy of stdout; fd 1 itself is silenced (the library prints to stdout in places)
out = os.fdopen(os.dup(1), "w")
dn = os.open(os.devnull, os.O_WRONLY); os.dup2(dn, 1)
spec = importlib.util.spec_from_file_location("tx_engine", so)
t = importlib.util.module_from_spec(spec); spec.loader.exec_module(t)
# the pure-python files of the package, loaded from the tree by path: `tx_engine` is a stub package whose
# `tx_engine.tx_engine` is the extension (the real __init__ needs `requests` / `cryptography`)
pkg = types.ModuleType("tx_engine"); pkg.__path__ = [os.path.join(repo, "python", "src", "tx_engine")]
sys.modules["tx_engine"] = pkg; sys.modules["tx_engine.tx_engine"] = t; pkg.tx_engine = t
Context = importlib.import_module("tx_engine.engine.context").Context
util = importlib.import_module("tx_engine.engine.util")

def hx(b): return bytes(b).hex() if len(b) else "-"
def unhex(h): return b"" if h == "-" else bytes.fromhex(h)
def text(h): return unhex(h).decode("utf-8")
def oint(s): return None if s == "~" else int(s)
def obytes(s): return None if s == "~" else unhex(s)
def items(s): return None if s == "~" else [] if s == "=" else [unhex(x) for x in s.split(",")]
def show_stack(l): return ",".join(hx(x) for x in l) if len(l) else "="
def stack_items(s): return [s[i] for i in range(s.size())]
def show_opt(p): return "~" if p is None else str(p)
def lst(s, sep): return [] if s == "-" else s.split(sep)
def mk_script(b):
    s = t.Script(); s.append_data(b); return s
def mk_tx(a):
    ins = []
    for f in lst(a[2], ","):
        i, n, u, q = f.split(":")
        ins.append(t.TxIn(text(i), int(n), mk_script(unhex(u)), int(q)))
    outs = []
    for f in lst(a[3], ","):
        v, l = f.split(":")
        outs.append(t.TxOut(int(v), mk_script(unhex(l))))
    return t.Tx(int(a[0]), ins, outs, int(a[1]))
def show_fields(tx):
    ins = ",".join("%s:%d:%s:%d" % (i.prev_tx, i.prev_index, hx(i.script_sig.get_commands()), i.sequence) for i in tx.tx_ins) or "-"
    outs = ",".join("%d:%s" % (o.amount, hx(o.script_pubkey.get_commands())) for o in tx.tx_outs) or "-"
    return "%d;%d;%s;%s" % (tx.version, tx.locktime, ins, outs)
def bang(f):
    try: return f()
    except Exception: return "!"
def export(w):
    return "ok:%s|%s|%s|%s|%s|%s|%s" % (bang(w.to_wif), w.get_public_key_as_hexstr(), bang(w.get_address), w.to_hex(), w.to_int(), w.get_network(),
                                        hx(w.get_locking_script().get_commands()))

S0 = t.Script()
TX0 = t.Tx(1, [t.TxIn("00" * 32, 0)], [t.TxOut(5, mk_script(b"\x51"))], 0)
W0 = t.Wallet.from_int("BSV_Testnet", 12345)
# ill-typed / out-of-range arguments that cannot even be written as a Rust call: each must raise an ordinary exception
ILL = [
    lambda: t.py_script_eval("51"), lambda: t.py_script_eval(b"\x51", "1"), lambda: t.py_script_eval(b"\x51", 1.5),
    lambda: t.py_script_eval(b"\x51", None, "00" * 32), lambda: t.py_script_eval(b"\x51", None, 5), lambda: t.py_script_eval(),
    lambda: t.py_script_eval_pystack(b"\x51", None, None, None, [[1]], None), lambda: t.py_script_eval_pystack(b"\x51", None, None, None, None, "x"),
    lambda: t.py_script_eval_pystack(None), lambda: t.py_script_eval_pystack(b"\x51", "0"),
    lambda: t.Stack([[256]]), lambda: t.Stack([[-1]]), lambda: t.Stack(["ab"]), lambda: t.Stack(5), lambda: t.Stack([5]),
    lambda: t.Stack().pop(), lambda: t.Stack([[1]])[1], lambda: t.Stack([[1]])[-1], lambda: t.Stack([[1]])["a"],
    lambda: t.Stack([[1]]).decode_element(1), lambda: t.Stack([[1]]).decode_element(-1), lambda: t.Stack([[1]]).decode_element("0"),
    lambda: t.Stack().push_bytes_integer(["a"]), lambda: t.Stack().push_bytes_integer([1.5]), lambda: t.Stack().push_bytes_integer(5),
    lambda: t.Stack().push_bytes_integer([True]), lambda: t.Stack().push("ab"), lambda: t.Stack().push([300]),
    lambda: t.Stack.single_from_array_bytes([256]), lambda: t.Stack.single_from_array_bytes([-1]), lambda: t.Stack.single_from_array_bytes(["a"]),
    lambda: t.Stack.single_from_array_nums(["a"]), lambda: t.decode_num_stack("00"), lambda: t.decode_num_stack(5),
    lambda: t.Script([256]), lambda: t.Script([-1]), lambda: t.Script(["a"]), lambda: t.Script(5),
    lambda: t.Script([1])[5], lambda: t.Script([1])[-1], lambda: t.Script([1])["0"],
    lambda: t.Script().append_byte(256), lambda: t.Script().append_byte(-1), lambda: t.Script().append_data("x"), lambda: t.Script().append_pushdata(5),
    lambda: t.Script().append_integer("1"), lambda: t.Script().append_integer(2 ** 63), lambda: t.Script().append_integer(-2 ** 63 - 1),
    lambda: t.Script().append_big_integer("1"), lambda: t.Script().append_big_integer(1.5),
    lambda: t.Script().shorten(-1), lambda: t.Script().sub_script(-1, 2), lambda: t.Script().sub_script(0, 2 ** 64),
    lambda: t.Script.parse_string(5), lambda: t.Script.parse_string(b"OP_1"), lambda: t.Script.parse("00"), lambda: t.Script.parse(5),
    lambda: t.TxIn("00", -1), lambda: t.TxIn("00", 2 ** 32), lambda: t.TxIn(5, 0), lambda: t.TxIn("00", 0, "x"),
    lambda: t.TxIn("00", 0, t.Script(), -1), lambda: t.TxIn("00", 0, t.Script(), 2 ** 32),
    lambda: t.TxOut(2 ** 63, t.Script()), lambda: t.TxOut(-2 ** 63 - 1, t.Script()), lambda: t.TxOut("1", t.Script()), lambda: t.TxOut(1, b""),
    lambda: t.Tx(-1, [], []), lambda: t.Tx(2 ** 32, [], []), lambda: t.Tx(1, [5], []), lambda: t.Tx(1, [], [], -1), lambda: t.Tx(1, None, []),
    lambda: t.Tx.parse("00"), lambda: t.Tx.parse(5), lambda: t.Tx.parse_hexstr(b"00"),
    lambda: t.Tx(1, [], []).validate(5), lambda: t.Tx(1, [], []).validate([5]), lambda: t.Tx(1, [], []).add_tx_in(5), lambda: t.Tx(1, [], []).add_tx_out(5),
    lambda: setattr(TX0.copy(), "version", -1), lambda: setattr(TX0.copy(), "tx_ins", 5), lambda: setattr(TX0.copy(), "locktime", 2 ** 32),
    lambda: setattr(t.TxIn("00", 0), "prev_tx", 5), lambda: setattr(t.TxIn("00", 0), "prev_index", -1), lambda: setattr(t.TxOut(1, t.Script()), "amount", 2 ** 63),
    lambda: t.sig_hash(5, 0, S0, 0, 65), lambda: t.sig_hash(TX0, "0", S0, 0, 65), lambda: t.sig_hash(TX0, 0, b"", 0, 65), lambda: t.sig_hash(TX0, 0, S0, "0", 65),
    lambda: t.sig_hash(TX0, 0, S0, 0, "65"), lambda: t.sig_hash(TX0, 0, S0, 0), lambda: t.sig_hash_preimage(TX0, 0, S0, 0, 65, 1),
    lambda: t.sig_hash_checksig_index(TX0, 0, S0, "0", 0, 65), lambda: t.sig_hash_preimage_checksig_index(TX0, 0, S0, 0, 0, None),
    lambda: t.Wallet(5), lambda: t.Wallet(b"x"), lambda: t.Wallet.from_bytes(5, b""), lambda: t.Wallet.from_bytes("BSV_Mainnet", "00"),
    lambda: t.Wallet.from_hexstr("BSV_Mainnet", b"00"), lambda: t.Wallet.from_int("BSV_Mainnet", "12"), lambda: t.Wallet.from_int("BSV_Mainnet", 1.5),
    lambda: t.Wallet.from_int(5, 1), lambda: t.Wallet.generate_keypair(5), lambda: t.Wallet.generate_keypair("x"),
    lambda: W0.sign_tx("0", TX0, TX0), lambda: W0.sign_tx(0, 5, TX0), lambda: W0.sign_tx(0, TX0, None), lambda: W0.sign_tx_sighash(0, TX0, TX0, 256),
    lambda: W0.sign_tx_sighash(0, TX0, TX0, -1), lambda: W0.sign_tx_sighash_checksig_index(0, TX0, TX0, 65, -1), lambda: W0.sign_tx(-1, TX0, TX0),
    lambda: t.hash160("x"), lambda: t.hash256d(5), lambda: t.p2pkh_script("x"), lambda: t.address_to_public_key_hash(5), lambda: t.address_to_public_key_hash(b"1"),
    lambda: t.public_key_to_address("x", "BSV_Mainnet"), lambda: t.public_key_to_address(b"\x02" * 33, 5), lambda: t.wif_to_bytes(5),
    lambda: t.bytes_to_wif("x", "BSV_Mainnet"), lambda: t.bytes_to_wif(b"", 5), lambda: t.wif_from_pw_nonce(5, "a"), lambda: t.wif_from_pw_nonce("a", b"b"),
]

def handle(op, a):
    if op == "c18.eval":
        st, alt, pos = t.py_script_eval(unhex(a[0]), oint(a[1]), obytes(a[2]))
        return "ok:%s|%s|%s" % (show_stack(st), show_stack(alt), show_opt(pos))
    if op == "c18.evalps":
        sp, ap = items(a[4]), items(a[5])
        st, alt, pos = t.py_script_eval_pystack(unhex(a[0]), oint(a[1]), oint(a[2]), obytes(a[3]), None if sp is None else t.Stack(sp), None if ap is None else t.Stack(ap))
        return "ok:%s|%s|%s" % (show_stack(stack_items(st)), show_stack(stack_items(alt)), show_opt(pos))
    if op == "c18.ctx":
        c = Context(script=mk_script(unhex(a[0])), ip_start=oint(a[1]), ip_limit=oint(a[2]), z=obytes(a[3]))
        v = c.evaluate(quiet=True)
        return "ok:%d|%s|%s" % (1 if v else 0, show_stack(stack_items(c.get_stack())), show_stack(stack_items(c.get_altstack())))
    if op == "c18.decnum": return "ok:%d" % t.decode_num_stack(unhex(a[0]))
    if op == "c18.decelem": return "ok:%d" % t.Stack([unhex(a[0])]).decode_element(0)
    if op == "c18.decstack":
        v = t.Stack(items(a[0]) or []).decode_stack()
        return "ok:" + (",".join(str(x) for x in v) if v else "-")
    if op == "c18.stackseq":
        st = t.Stack(items(a[0]) or [])
        res = []
        for o in a[1].split(","):
            k, arg = o[0], o[1:]
            if k == "d": res.append(str(st.decode_element(int(arg))))
            elif k == "D": res.append("[" + ";".join(str(x) for x in st.decode_stack()) + "]")
            elif k == "g": res.append(hx(st[int(arg)]))
            elif k == "s": res.append(str(st.size()))
            elif k == "P": st.push(unhex(arg))
            elif k == "O": res.append(hx(st.pop()))
            else: raise ValueError("bad op")
        return "ok:%s|%s" % (",".join(res), show_stack(stack_items(st)))
    if op == "c18.pushint":
        s = t.Stack(); s.push_bytes_integer([int(a[0])]); return "ok:" + hx(s[0])
    if op == "c18.utilenc": return "ok:" + hx(util.encode_num(int(a[0])))
    if op == "c18.utildec": return "ok:%d" % util.decode_num(unhex(a[0]))
    if op == "c18.appint":
        s = t.Script(); s.append_integer(int(a[0])); return "ok:" + hx(s.get_commands())
    if op == "c18.appbig":
        s = t.Script(); s.append_big_integer(int(a[0])); return "ok:" + hx(s.get_commands())
    if op == "c18.tx":
        tx = mk_tx(a)
        i, h, s, hs, cb = tx.id(), tx.hash(), tx.serialize(), tx.as_hexstr(), tx.is_coinbase()
        if h[::-1].hex() != i or s.hex() != hs or tx.copy() != tx: return "ok:INCONSISTENT"
        return "ok:%s|%s|%d" % (i, s.hex(), 1 if cb else 0)
    if op == "c18.txparse":
        tx = t.Tx.parse(unhex(a[0])); return "ok:%s|%s" % (show_fields(tx), tx.serialize().hex())
    if op == "c18.txparsehex":
        tx = t.Tx.parse_hexstr(text(a[0])); return "ok:%s|%s" % (show_fields(tx), tx.serialize().hex())
    if op == "c18.sighash":
        tx = mk_tx(a[1:5]); n, code, k, sat, ty = int(a[5]), mk_script(unhex(a[6])), int(a[7]), int(a[8]), int(a[9])
        if a[0] == "h": r = t.sig_hash(tx, n, code, sat, ty)
        elif a[0] == "hk": r = t.sig_hash_checksig_index(tx, n, code, k, sat, ty)
        elif a[0] == "p": r = t.sig_hash_preimage(tx, n, code, sat, ty)
        else: r = t.sig_hash_preimage_checksig_index(tx, n, code, k, sat, ty)
        return "ok:" + hx(r)
    if op == "c18.validate":
        tx = mk_tx(a[0:4]); utxos = [t.Tx.parse(bytes.fromhex(h)) for h in lst(a[4], ";")]
        tx.validate(utxos); return "ok"
    if op == "c18.wbytes": return export(t.Wallet.from_bytes(text(a[0]), unhex(a[1])))
    if op == "c18.whex": return export(t.Wallet.from_hexstr(text(a[0]), text(a[1])))
    if op == "c18.wint": return export(t.Wallet.from_int(text(a[0]), int(a[1])))
    if op == "c18.wwif": return export(t.Wallet(text(a[0])))
    if op == "c18.sign":
        w = t.Wallet.from_bytes("BSV_Testnet", unhex(a[1])); prev, tx = mk_tx(a[5:9]), mk_tx(a[9:13])
        if a[0] == "s": r = w.sign_tx(int(a[2]), prev, tx)
        elif a[0] == "sf": r = w.sign_tx_sighash(int(a[2]), prev, tx, int(a[3]))
        else: r = w.sign_tx_sighash_checksig_index(int(a[2]), prev, tx, int(a[3]), int(a[4]))
        return "ok:" + r.serialize().hex()
    if op == "c18.pk2addr": return "ok:" + t.public_key_to_address(unhex(a[1]), text(a[0]))
    if op == "c18.p2pkh": return "ok:" + hx(t.p2pkh_script(unhex(a[0])).get_commands())
    if op == "c18.h160": return "ok:" + t.hash160(unhex(a[0])).hex()
    if op == "c18.h256": return "ok:" + t.hash256d(unhex(a[0])).hex()
    if op == "c18.wif2b": return "ok:" + t.wif_to_bytes(text(a[0])).hex()
    if op == "c18.b2wif": return "ok:" + t.bytes_to_wif(unhex(a[1]), text(a[0]))
    if op == "c18.a2pkh": return "ok:" + hx(t.address_to_public_key_hash(text(a[0])))
    if op == "c18.script":
        s = mk_script(unhex(a[0])); raw = s.raw_serialize()
        if raw != s.get_commands(): return "ok:INCONSISTENT"
        return "ok:%s|%s|%d" % (s.serialize().hex(), hx(raw), 1 if s.is_p2pkh() else 0)
    if op == "c18.scriptparse": return "ok:" + hx(t.Script.parse(unhex(a[0])).get_commands())
    if op == "c18.parsestr": return "ok:" + hx(t.Script.parse_string(text(a[0])).get_commands())
    if op == "c18.wifpw": return "ok:" + t.wif_from_pw_nonce(text(a[0]), text(a[1]), text(a[2]))
    if op == "c18.ill":
        i = int(a[0])
        if i >= len(ILL): return "unknown-ill"
        ILL[i](); return "ok:no-exception"
    return "unknown-op"

for line in sys.stdin:
    line = line.rstrip("\n")
    if not line: continue
    a = line.split(" ")
    try:
        o = handle(a[0], a[1:])
    except Exception:
        o = "err"
    except BaseException as e:
        o = "panic:" + type(e).__name__ if type(e).__name__ == "PanicException" else "exc:" + type(e).__name__
    out.write(line + "\t" + o + "\n")
out.flush()
'''

N_ILL_TABLE = _RUNNER.count("lambda:")


def _norm(o):
    return "panic" if o.startswith("panic") else o


def _cgh(V, args, inp=None):
    """run the harness; results are written to a file (the library prints to stdout in places)"""
    os.makedirs(os.path.join(V, ".build", "run"), exist_ok=True)
    outp = os.path.join(V, ".build", "run", f"cgh-c18py-{os.getpid()}.out")
    env = dict(os.environ, CGH_OUT=outp)
    p = subprocess.run([os.path.join(V, ".build", "target", "debug", "cgh")] + args, input=inp, capture_output=True, text=True, timeout=3000, env=env)
    if p.returncode != 0:
        raise RuntimeError("cgh failed: " + p.stderr[-1500:])
    data = open(outp, errors="replace").read()
    os.remove(outp)
    return [tuple(l.split("\t", 1)) for l in data.split("\n") if "\t" in l]


def _corpus(V):
    d = os.path.join(V, "corpus", "C18")
    reqs = []
    if os.path.isdir(d):
        for fn in sorted(os.listdir(d)):
            for l in open(os.path.join(d, fn)):
                l = l.rstrip("\n")
                if l and not l.startswith("#"):
                    reqs.append(l.split("\t")[0])
    return reqs


def custom_stage(pid, tier, seed, V, log):
    t0 = time.time()
    so = pyext.build_ext(V)
    t_build = time.time() - t0
    repo = pyext.repo_path(V)
    # the SAME request lines as the standard stage, with the Rust-side outcome of each
    rust = []
    cr = _corpus(V)
    if cr:
        rust += _cgh(V, ["replay"], inp="\n".join(cr) + "\n")
    rust += _cgh(V, ["gen", pid, tier, str(seed)])
    # the whole ill-typed table, also beyond what the generator knows about
    have = {r for r, _ in rust}
    rust += [(f"c18.ill {i}", "err") for i in range(N_ILL_TABLE) if f"c18.ill {i}" not in have]
    reqs = [r for r, _ in rust]
    impl = pyext.run_runner(so, _RUNNER, reqs, extra_args=[repo])
    outs = pyext.run_driver(V, reqs)
    viol, hist, nontriv = [], {}, set()
    n_cmp = n_pyonly = 0
    for (req, py), (req2, ru), o in zip(impl, rust, outs):
        if req != req2:
            raise RuntimeError("python runner answered out of order")
        parts = o.split("\t")
        model = _norm(parts[0])
        sig = parts[2] if len(parts) > 2 else ""
        pyn, run_ = _norm(py), _norm(ru)
        op = req.split(" ")[0]
        cls = pyn.split(":")[0]
        hist.setdefault(op, {}).setdefault(cls, 0)
        hist[op][cls] += 1
        if pyn.startswith("ok"):
            nontriv.add(req)
        if cls not in ("ok", "err"):
            # PanicException (or any other BaseException): never acceptable; known only if the Rust core itself panics here
            viol.append((req, pyn, run_, "nopanic", sig))
        elif run_ == "skip":
            n_pyonly += 1        # no Rust counterpart: an ordinary outcome is all that is required
        elif pyn != run_:
            viol.append((req, pyn, run_, run_, sig or "python-differs-from-rust"))
        elif model != "*" and pyn != model:
            viol.append((req, pyn, model, "nopanic", sig or "model-drift(py stage)"))
        else:
            n_cmp += 1
    log(f"[{pid}] python stage: extension built in {round(t_build, 1)}s; {len(reqs)} requests through the Python API, {n_cmp} equal to the Rust "
        f"outcome, {n_pyonly} python-only, {len(viol)} disagreement(s), {round(time.time() - t0, 1)}s")
    pick = [i for i in (0, len(impl) // 3, 2 * len(impl) // 3) if i < len(impl)]
    return {"violations": viol, "evaluations": len(reqs), "distinct_nontrivial": len(nontriv),
            "samples": [{"request": impl[i][0][:300], "python": impl[i][1][:160], "rust": rust[i][1][:160], "model": outs[i].split("\t")[0][:160]} for i in pick],
            "coverage": {"python_stage": {"requests": len(reqs), "equal_to_rust": n_cmp, "python_only": n_pyonly, "outcome_histogram": hist,
                                          "ill_typed_table": N_ILL_TABLE, "extension_build_s": round(t_build, 1),
                                          "loaded": ["tx_engine.so (cargo feature python, built from the tree the harness links)",
                                                     "python/src/tx_engine/engine/context.py", "python/src/tx_engine/engine/util.py"]}}}


PROP = dict(
    modules=["CG.Props.C18"],
    required_theorems=["C18_checker_irrelevant", "C18_checker_irrelevant_ok", "C18_any_two_checkers_agree", "C18_checker_relevant_when_called",
                       "C18_z_does_not_change_eval_simple", "C18_z_does_not_change_eval", "C18_context_z_irrelevant",
                       "C18_z_changes_eval_pinned", "C18_z_does_not_change_eval_pinned_false",
                       "C18_pyTruth_is_decode_bool", "C18_verdict_is_top_of_stack", "C18_verdict_eq_core_eval",
                       "C18_verdict_pinned_bottom_of_stack", "C18_verdict_pinned_ignores_top",
                       "C18_wrappers_no_panic", "C18_pinned_unwrap_panics", "C18_wrappers_no_panic_pinned_false",
                       "C18_decode_element_eq_bigint", "C18_push_decode_roundtrip"],
    custom_stage=custom_stage,
    rule="Every request runs through BOTH APIs (Rust: harness/src/c18.rs, standard stage; Python: built extension + context.py/util.py, python "
         "stage) and the canonical outcome strings must be equal; where modelled (evaluation routing, Context verdict, numbers, tx id/serialise, "
         "signature hashes, key-import errors, Script.serialize) the Lean model must predict the same string; every outcome must be a value or an "
         "ordinary exception. Requests: grammar + hostile scripts x {py_script_eval, py_script_eval_pystack, Context.evaluate} with the same "
         "arguments with z, without z and with z of a wrong length, random start/break offsets and initial stacks, offsets outside usize; ALL "
         "(start, break) pairs incl. None in [0, len+1] of short scripts with and without z; 144 final stacks over the boundary truth values "
         "(top x bottom); real ECDSA signatures under the right z / a wrong z / no z (CHECKSIG, CHECKSIGVERIFY, 1-of-2 CHECKMULTISIG); stack items "
         "and integers at the codec boundaries (lengths 0-33, +-2^7..2^63, 2^64, 2^127, 2^256, 10^610, 10^640) through decode_num_stack, "
         "Stack.decode_element/decode_stack/push_bytes_integer, util.encode_num/decode_num, Script.append_integer/append_big_integer; generated "
         "transactions (c07 generator): id/hash/serialize/is_coinbase, parse of the encoding, of every truncation class and with trailing bytes, "
         "parse_hexstr on 6 text variants, one defect per copy (13 bad id strings, out-of-range index/sequence/version/locktime/amount); 4 "
         "signature-hash entry points x valid and out-of-range input index, check index, amount, flag byte; wallet import from bytes / hex text / "
         "integer / WIF over key pool {valid, 0, n-1, n, n+1, 2^256-1, short, long, empty} x 12 network strings and 16 WIF variants, every export; "
         "sign_tx / sign_tx_sighash / sign_tx_sighash_checksig_index on a real P2PKH spend plus out-of-range input index, previous-output index, "
         "unrelated previous tx, bad ids, invalid keys; Tx.validate of the signed spend and 7 broken variants; Script.serialize at the var_int "
         "boundaries, Script.parse on hostile bytes; python-only: Script.parse_string on 44 hostile strings + random token soup, a table of "
         "ill-typed calls (wrong types, negative and oversized integers, attribute assignment). Non-trivial = the call returned a value (ok).",
    nontrivial=lambda req, impl: impl.startswith("ok"),
    trusted_base=["the Rust-side routing in harness/src/c18.rs is the reference the Python API is compared with (it calls the public Rust API: "
                  "Script::eval_with_stack with ZChecker/TransactionlessChecker, Tx::read/write/hash, Hash256::decode, create_sighash*, "
                  "sig_hash_preimage*, decode_num/encode_bigint/decode_bigint/decode_number_combined, Wallet, SigningKey::from_slice)",
                  "the interpreter, number-codec and signature-hash models of C01/C07/C02 (same differential tie), reused by CG.Model.PyGlue",
                  "k256 (DER/SEC1 parsing, verification, RFC 6979 signing) is a parameter of the theorems; when the ZChecker is consulted the "
                  "model column is '*' and the two real APIs are compared with each other",
                  "CPython + PyO3 argument conversion (an argument outside the Rust parameter type must raise OverflowError/TypeError)"],
    assumptions=["'performs no signature check' is formalised as: the run under the checker that fails every call does not end in that "
                 "checker's error (IllegalState); interpreter errors are ScriptError, so the two cannot be confused",
                 "all ordinary errors are canonicalised to 'err' on all three sides (which Python exception class is raised is not compared)",
                 "Tx.parse / Script.parse on hostile byte strings beyond truncation and trailing bytes belong to C06 (one recorded finding: "
                 "count field 2^64-1)",
                 "a python-stage disagreement cannot be re-run with ./check --replay (which skips custom stages); re-run ./check C18, or put "
                 "the request line into corpus/C18/"],
    explanation="Theorems cover the routing (which checker, which argument order, when a value is reported, what the verdict looks at, that "
                "every error is mapped to an exception); equality of results between the two APIs is decided per request.",
)

CLAIM = dict(
    text="Kernel-checked theorems over a model of the Python glue (py_script_eval, py_script_eval_pystack, Context.evaluate, PyTx::as_tx, "
         "sig_hash*, Wallet.from_bytes/from_int, Stack.decode_element, Script.append_integer) on top of the interpreter, number and "
         "signature-hash models: a run under the always-failing TransactionlessChecker that does not end in its error is reproduced exactly "
         "by EVERY checker (induction over the evaluation loop), hence a supplied signature-hash value cannot change the evaluation of a "
         "script that performs no signature check, through either entry point and through Context; the repaired Context.evaluate is "
         "decode_bool of the top item (= value non-zero) and equals Script::eval's verdict; every modelled wrapper of the repaired glue returns "
         "a value or an ordinary exception for all arguments. The pinned defects (swapped start/break with z, bottom-of-stack verdict, "
         "unwrap/expect on argument-derived values) are proved as witnesses on the pinned routing. 'Same result as the Rust operation' is "
         "decided differentially on every run: ~11 000 requests executed through the Rust API and through the built extension, outcome strings "
         "compared, PanicException distinguished from ordinary exceptions.",
    note="Not proved: equality of the two APIs beyond the routing (differential); k256 behaviour (parameter). One recorded finding shared with "
         "C06 (Tx.parse with a 2^64-1 count field panics in the core decoder). Trusted: Lean kernel; model<->code tie is differential.",
)

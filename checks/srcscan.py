"""Source scanner used by C15's pre_build stage: every call made on an `io::Write` parameter inside the non-test
code of /repo/src, classified.  The result is written to lean/CG/Generated/WriteSites.lean on every run and the
theorem `C15_source_has_no_bare_write` is re-checked against it: a translator-style tie for the one fact the C15
theorems take as a hypothesis ("every operation of every serialiser is a write_all").

kinds: 0 write_all | 1 byteorder write_u8/u16/u32/u64/i32/i64/... (write_all of a fixed-size array) |
       2 write_fmt / write! / writeln! (std: write_all based) | 3 flush |
       4 a bare `write(..)` / `write_vectored(..)` on the writer (a raw call whose count may be dropped)
"""
import os, re

KIND = {"write_all": 0, "write_fmt": 2, "flush": 3, "write": 4, "write_vectored": 4, "write_all_vectored": 0}


def strip_rust(src):
    """blank out comments, string/char literals (keeping newlines and length) so that brace matching is safe"""
    out, i, n = [], 0, len(src)
    def blank(s):
        return "".join(c if c == "\n" else " " for c in s)
    while i < n:
        c = src[i]
        if src.startswith("//", i):
            j = src.find("\n", i); j = n if j < 0 else j
            out.append(blank(src[i:j])); i = j
        elif src.startswith("/*", i):
            depth, j = 1, i + 2
            while j < n and depth:
                if src.startswith("/*", j): depth += 1; j += 2
                elif src.startswith("*/", j): depth -= 1; j += 2
                else: j += 1
            out.append(blank(src[i:j])); i = j
        elif c == '"' or (c == "b" and src.startswith('b"', i)):
            j = i + (2 if c == "b" else 1)
            while j < n and src[j] != '"':
                j += 2 if src[j] == "\\" else 1
            out.append('"' + blank(src[i + 1:j]) + '"'); i = j + 1
        elif c == "r" and re.match(r'r#*"', src[i:]):
            m = re.match(r'r(#*)"', src[i:]); close = '"' + m.group(1)
            j = src.find(close, i + len(m.group(0))); j = n if j < 0 else j + len(close)
            out.append(blank(src[i:j])); i = j
        elif c == "'":
            m = re.match(r"'(\\.[^']*|[^'\\])'", src[i:])
            if m:
                out.append(blank(m.group(0))); i += len(m.group(0))
            else:
                out.append(c); i += 1      # lifetime
        else:
            out.append(c); i += 1
    return "".join(out)


def match_brace(s, i):
    """s[i] == '{' -> index just past the matching '}'"""
    depth = 0
    for j in range(i, len(s)):
        if s[j] == "{": depth += 1
        elif s[j] == "}":
            depth -= 1
            if depth == 0: return j + 1
    return len(s)


def drop_test_modules(s):
    """blank `#[cfg(test)] mod x { ... }` blocks"""
    for m in list(re.finditer(r"#\[cfg\(test\)\]\s*(?:pub\s+)?mod\s+\w+\s*\{", s)):
        a = m.start(); b = match_brace(s, m.end() - 1)
        s = s[:a] + "".join(c if c == "\n" else " " for c in s[a:b]) + s[b:]
    return s


WRITER_TY = re.compile(r"(\w+)\s*:\s*&\s*mut\s+(?:dyn\s+(?:io::|std::io::)?Write\b|impl\s+(?:io::|std::io::)?Write\b|W\b)"
                       r"|(\w+)\s*:\s*(?:impl\s+(?:io::|std::io::)?Write\b|W\b)")


def scan_file(path, rel):
    src = drop_test_modules(strip_rust(open(path, errors="replace").read()))
    sites = []
    for m in re.finditer(r"\bfn\s+(\w+)\s*(?:<[^>{]*>)?\s*\(", src):
        # parameter list: up to the matching ')'
        i, depth = m.end() - 1, 0
        for j in range(i, len(src)):
            if src[j] == "(": depth += 1
            elif src[j] == ")":
                depth -= 1
                if depth == 0: break
        params = src[i:j + 1]
        names = [a or b for a, b in WRITER_TY.findall(params)]
        if not names:
            continue
        k = j + 1
        while k < len(src) and src[k] not in "{;":
            k += 1
        if k >= len(src) or src[k] == ";":
            continue
        end = match_brace(src, k)
        body = src[k:end]
        for w in names:
            for c in re.finditer(r"\b" + re.escape(w) + r"\s*\.\s*(\w+)\s*(?:::\s*<[^>]*>\s*)?\(", body):
                meth = c.group(1)
                if meth in KIND: kind = KIND[meth]
                elif re.fullmatch(r"write_[ui](8|16|24|32|48|64|128|int|int128)", meth) or re.fullmatch(r"write_f(32|64)", meth): kind = 1
                elif meth in ("by_ref", "borrow_mut", "as_mut"): continue
                else: kind = 4 if meth.startswith("write") else None
                if kind is None:
                    continue
                line = src.count("\n", 0, k + c.start()) + 1
                sites.append((rel, m.group(1), line, kind, meth))
            for c in re.finditer(r"\bwrite(ln)?!\s*\(\s*" + re.escape(w) + r"\b", body):
                line = src.count("\n", 0, k + c.start()) + 1
                sites.append((rel, m.group(1), line, 2, "write!"))
    return sites


def scan_repo(root="/repo/src", skip=("python", "interface")):
    sites = []
    for d, ds, fs in sorted(os.walk(root)):
        ds[:] = sorted(x for x in ds if not (d == root and x in skip))
        for f in sorted(fs):
            if f.endswith(".rs"):
                p = os.path.join(d, f)
                sites += scan_file(p, os.path.relpath(p, root))
    return sorted(set(sites))


def render(sites):
    files = sorted({s[0] for s in sites})
    o = ["/-! GENERATED on every run by checks/srcscan.py from /repo/src (non-test code): every call made on an",
         "`io::Write` parameter.  Entry = (file index, line, kind); kinds: 0 write_all, 1 byteorder integer write,",
         "2 write_fmt / write!, 3 flush, 4 bare write / write_vectored.  Do not edit. -/",
         "namespace CG.Generated.WriteSites", "",
         "def files : List String := [" + ", ".join('"%s"' % f for f in files) + "]", "",
         "def sites : List (Nat × Nat × Nat) := ["]
    lines = []
    for idx, s in enumerate(sites):
        comma = "," if idx + 1 < len(sites) else ""
        lines.append("  (%d, %d, %d)%s  -- %s  fn %s: .%s" % (files.index(s[0]), s[2], s[3], comma, s[0], s[1], s[4]))
    o += lines
    o += ["]", "", "end CG.Generated.WriteSites", ""]
    return "\n".join(o)


if __name__ == "__main__":
    import sys
    ss = scan_repo(sys.argv[1] if len(sys.argv) > 1 else "/repo/src")
    for s in ss: print(s)
    print(len(ss), "sites;", sum(1 for s in ss if s[3] == 4), "bare")

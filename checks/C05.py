"""C05 — configuration of ./check C05 (PROP) and the MANIFEST claim (CLAIM)."""

_TYPES = ["var_int", "outpoint", "txin", "txout", "tx", "blockheader", "invvect", "inv", "blocklocator", "ping", "feefilter",
          "sendcmpct", "nodeaddr", "nodeaddrex", "version", "addr", "headers", "block", "merkleblock", "filterload", "filteradd",
          "reject", "protoconf", "authch", "createstrm", "streamack", "cmpctblock", "getblocktxn", "blocktxn", "addrv2"]


def _nontrivial(req, impl):
    # a case counts when the codec under test was entered: everything except malformed requests and
    # messages rejected on the magic bytes before any command dispatch
    if impl.startswith("bad-request") or impl.startswith("unknown-op"):
        return False
    f = req.split(" ")
    if f[0] == "c05.dec" and (f[1].endswith(".badmagic") or f[1].endswith(".short-header")):
        return False
    return True


PROP = dict(
    modules=["CG.Props.C05"],
    required_theorems=[f"C05_{t}_{k}" for t in _TYPES for k in ("dec_enc", "size_exact", "enc_eq_spec", "fixpoint")]
                      + ["C05_message_dec_enc", "C05_message_enc_eq_spec", "C05_header_consistent", "C05_message_fixpoint",
                         "C05_message_write_total", "C05_command_is_padded_name", "C05_var_int_size_classes",
                         "C05_cmpctblock_validate_no_panic"],
    rule="c05.enc: a generated value of every Message variant (32 kinds; addrv2 through Message::read of the harness's own "
         "reference encoding) under each of the 5 distinct network magics -> Message::write bytes, Payload::size, Message::read "
         "back; c05.penc: the same through T::write / T::read / size() for 30 payload types incl. var_int and MessageHeader; "
         "c05.dec / c05.pdec: byte strings laid out by the harness's own encoder, canonical and non-canonical (non-minimal "
         "varints, relay byte != 0/1, explicit empty trailing fields, odd or missing headers count byte), payload-internal and "
         "post-message trailing bytes, truncation at a random offset, bad checksum/magic/size, unknown commands -> decoded value "
         "(printed field by field), re-encoding, fixpoint flag, bytes consumed. List/string lengths from the pool "
         "{0,1,2,3,7,32,75,76,252..256,300} in every field, 65535/65536 for every list and string field (one field at a time), "
         "pre-read limits 1000/1001 (addr, addrv2) and 50000/50001 (inv). A case is non-trivial unless it was rejected on the "
         "magic bytes or on a short header; distinct by request line.",
    nontrivial=_nontrivial,
    trusted_base=["sha2 crate (SHA-256): a parameter H in the theorems; an independent Lean SHA-256 in the driver",
                  "std::io::Cursor semantics: a failed read_exact leaves the cursor at end of input (relied on by the `if let Ok(..)` reads; exercised by the truncation cases)",
                  "harness value printer/parser (token grammar) and its reference layout used to build decode inputs"],
    assumptions=["values are built from in-range fields: the decidable predicate `wf` of each codec (widths of the Rust integer types, 32-byte hashes, "
                 "Authch.message_length = message.len(), Protoconf policies present iff version > 1, Reject data = 32 bytes iff message is block/tx, "
                 "association id <= 255 bytes, counts within MAX_ADDR_COUNT / MAX_INV_ENTRIES, strings valid UTF-8) and, at message level, what the arm's validate() demands "
                 "and payload size < 2^32 and <= MAX_PAYLOAD_SIZE (except block)",
                 "Message::Other and Message::Partial are not protocol messages (write refuses them) and are excluded",
                 "message-level fixpoint assumes the re-encoding respects the payload size limit (it can be at most 2 bytes longer than the accepted payload: "
                 "an omitted trailing headers count byte or omitted empty counts of cmpctblock/getblocktxn/blocktxn)",
                 "allocation behaviour on hostile lengths and panics of write on out-of-range values (association id > 255, Protoconf version > 1 without policies) are outside this property (C06)"],
)

CLAIM = dict(
    text="Kernel-checked theorems over a combinator model of every read/write/size in src/messages/*.rs and util/var_int.rs: for all 30 payload types "
         "(var_int, OutPoint, TxIn, TxOut, Tx, BlockHeader, InvVect, Inv, BlockLocator, Ping/Pong, FeeFilter, SendCmpct, NodeAddr, NodeAddrEx, Version, Addr, Headers, "
         "Block, MerkleBlock, FilterLoad, FilterAdd, Reject, Protoconf, Authch, Createstrm, Streamack, Cmpctblock, Getblocktxn, Blocktxn, AddrV2) and for Message with its "
         "header (all 32 commands, any magic, any hash function): decode(encode v) = v consuming the whole payload for every in-range v of any list/string length; "
         "size() = bytes written; encoder = an independent reference layout written from the protocol documents; whatever decodes (non-minimal varints, relay byte 2, "
         "absent optional fields, ignored trailing count bytes) is in range, so re-encode/decode is a fixpoint; header length field = payload length, checksum = first four "
         "bytes of H(H(payload)), command = 12-byte NUL-padded name; command dispatch unambiguous (regenerated command table, decide). No payload type is left to the "
         "correspondence alone. The model is tied to the code on every run by a differential run in both directions (value -> bytes, bytes -> value) over every Message "
         "variant, every public payload type and every network magic.",
    note="Trusted: Lean kernel; the model<->code tie is differential (bounded by the generators); SHA-256 is a parameter in theorems and an independent Lean "
         "implementation in the driver; library choices the documents leave open (u8-length association id appended only when non-empty, createstrm policy omitted when "
         "empty, headers count byte 0x00, protoconf field count named `version`) are adopted by the reference encoder and listed in CG/Spec/WireSpec.lean.",
)

"""C02 — configuration of ./check C02 (PROP) and the MANIFEST claim (CLAIM)."""

PROP = dict(
    modules=["CG.Props.C02"],
    required_theorems=["C02_bip143_eq_spec", "C02_legacy_eq_spec", "C02_sighash_eq_spec", "C02_oob_index_is_error",
                       "C02_cache_transparent", "C02_cache_invariant", "C02_subscript_eq_spec_partial",
                       "C02_subscript_eq_spec_partial_forkid", "C02_subscript_none", "C02_digest_eq_spec_partial",
                       "C02_preimage_injective", "C02_witness_raw_scan", "C02_witness_single_sep_prefix",
                       "C02_no_checksig_byte", "C02_never_panics", "C02_subscript_eq_spec_false", "C02_witness_pinned_legacy_single"],
    rule="c02.seq: one transaction (0-8 inputs/outputs, boundary u32 fields, amounts from the i64 pool and random i64, scripts of "
         "length 0/1/30/252/253/300) and a sequence of 1-6 requests sharing ONE SigHashCache (every 100th transaction in quick, every "
         "10th in thorough: 256 requests, one per flag byte); request = entry point (sig_hash_preimage, _checksig_index, sighash, "
         "_checksig_index, wallet::create_sighash, _checksig_index) x input index (in range, = len, beyond) x script code x check index "
         "(each existing check, sometimes one beyond) x amount x flag (6 FORKID types, 6 legacy types, odd bytes, random). Script codes: "
         "P2PKH whose 20 hash bytes contain 0xab / 0xac zero, one, two or several times; separator at offset 0; one separator at a "
         "non-zero offset; two separators before the check; 2-4 checks with separators between them; separator after the check; "
         "PUSHDATA1/2 payloads and length bytes holding the byte values; no-check scripts; random bytes incl. truncated pushes and "
         "'0xab but no 0xac' scripts (guarded since 0252e8b); the pinned tests' push-less fixture. Compared per request: preimage bytes / digest "
         "(driver's own SHA-256d) / error variant against model and against the BIP-143 / legacy specification evaluated afresh; "
         "c02.cache: the three cache slots after the sequence against the model. Sequences containing a FORKID request with a "
         "separator after the selected check are outside the claim (spec '*'). Non-trivial: at least one request got past the index "
         "check (an ok answer); distinct by request line.",
    nontrivial=lambda req, impl: ("ok:" in impl) and impl != "ok:-,-,-",
    trusted_base=["sha2 crate's SHA-256d is a parameter H in every theorem; the driver instantiates it with the import-free Lean SHA-256",
                  "Tx/TxIn/TxOut/OutPoint structures are shared between model and specification; every byte layout is written twice"],
    assumptions=["amounts are in Int64, u32 fields < 2^32, outpoint hashes are 32 bytes (types guarantee it)",
                 "library-level choices adopted by the specification: the check is selected by its ordinal among OP_CHECKSIG operations; "
                 "no separator operation => whole script for any ordinal; separator present but no such check => error; legacy "
                 "SIGHASH_SINGLE without a matching output => error (the reference client hashes the constant 1); a truncated push "
                 "takes the rest of the script",
                 "sig_hash_preimage(_checksig_index) is specified by the BIP-143 layout for every type byte (it never looks at the FORKID bit)"],
    explanation="Two known findings in extract_subscript (raw-byte scanning; single separator at a non-zero offset) are modelled "
                "faithfully, refuted for the full statement by decide-witnesses and reported as KNOWN-FINDING when hit; the layout "
                "theorems are conditional on agreeing selections and C02_subscript_eq_spec_partial proves agreement under explicit "
                "hypotheses. legacy SIGHASH_SINGLE: the model is the tree with C02-legacy-single-outputs.patch.",
)

CLAIM = dict(
    text="Kernel-checked theorems over a model of sighash.rs (cache as explicit state, SHA-256d a parameter): for every transaction, "
         "input index, Int64 amount, all 256 type bytes and every script code on which the sub-script selections agree, the BIP-143 "
         "preimage and the legacy buffer equal an independently written specification (hence equal digests for any hash); an "
         "out-of-range index is an error everywhere; for ANY list of requests through one cache every answer equals the fresh "
         "computation (slot invariant, induction over the list); the BIP-143 layout is uniquely decodable. The selection "
         "extract_subscript is proved equal to the push-aware specification when no push-data/length byte is 0xab/0xac and the script "
         "does not have exactly one separator at a non-zero offset; the unrestricted statement is refuted by decide-witnesses. Tied to the "
         "code by a differential run through all six entry points with request sequences sharing a cache.",
    note="Known findings (not fixed; pinned tests depend on them): subscript-raw-scan, subscript-single-sep-prefix. Fixed by proposed "
         "patch: legacy SIGHASH_SINGLE blanked the output at n_input instead of those before it. The 0xab-without-0xac underflow was fixed under C07 (0252e8b) and is modelled as fixed. FORKID script codes with a separator after the selected check are outside the claim.",
)

"""C10 — configuration of ./check C10 (PROP) and the MANIFEST claim (CLAIM)."""
import os, subprocess

LANGS = ["chinese_simplified", "chinese_traditional", "english", "french", "italian", "japanese", "korean", "spanish"]


def _lean_name(lang):
    parts = lang.split("_")
    return parts[0] + "".join(p.capitalize() for p in parts[1:])


def _cap(nm):
    return nm[0].upper() + nm[1:]


def render_wordlists(lists):
    """lists: {lang: [bytes, …]} -> {relative path under lean/CG/Generated: source}.
    A word is written as ONE natural-number literal: (big-endian value of 0x01 ++ utf8(word)) * 256 + byte length
    (kernel arithmetic on literals is GMP-backed, so the kernel can evaluate checkers over the
    lists; string literals do not reduce in the kernel).  One module per language so that Lean,
    the C compiler and the per-language proofs work in parallel and only changed lists are re-checked."""
    hdr = ["/-! GENERATED on every run by `checks/C10.py` (pre_build) from `load_wordlist` of the current /repo",
           "tree, through `cgh replay` requests `c10.wordlist <lang>`. Do not edit. -/"]
    files = {}
    files["Wordlists/Base.lean"] = "\n".join(
        ["import CG.Base.Bytes"] + hdr +
        ["/-! A word `w` of `m` bytes is stored as the natural number `(value of 0x01 ++ w, big-endian) * 256 + m`. -/",
         "namespace CG.Generated.Wordlists",
         "open CG",
         "",
         "def wordOfKeyAux : Nat → Nat → Bytes → Bytes",
         "  | 0, _, acc => acc",
         "  | f + 1, n, acc => if n ≤ 1 then acc else wordOfKeyAux f (n / 256) (UInt8.ofNat (n % 256) :: acc)",
         "",
         "/-- the UTF-8 bytes of the word stored as `k` -/",
         "def wordOfKey (k : Nat) : Bytes := wordOfKeyAux (k % 256 + 1) (k / 256) []",
         "",
         "end CG.Generated.Wordlists", ""])
    for lang in LANGS:
        ws = lists[lang]
        nm = _lean_name(lang)
        for w in ws:
            if len(w) > 255:
                raise RuntimeError(f"word longer than 255 bytes in {lang}")
        keys = [str(int.from_bytes(b"\x01" + w, "big") * 256 + len(w)) for w in ws]
        o = ["import CG.Generated.Wordlists.Base"] + hdr + ["namespace CG.Generated.Wordlists", "open CG", ""]
        # chunks of 128 literals: one 2048-element literal exceeds the compiler's recursion depth
        chunks = [keys[i:i + 128] for i in range(0, len(keys), 128)] or [[]]
        for c, ch in enumerate(chunks):
            o.append(f"def {nm}Keys{c} : List Nat := [")
            for i in range(0, len(ch), 8):
                o.append("  " + ", ".join(ch[i:i + 8]) + ("," if i + 8 < len(ch) else ""))
            o.append("]")
        o.append(f"def {nm}Keys : List Nat := " + " ++ ".join(f"{nm}Keys{c}" for c in range(len(chunks))))
        o.append(f"/-- `load_wordlist(Wordlist::…)` for {lang}.txt: UTF-8 bytes of every line -/")
        o.append(f"def {nm} : List Bytes := {nm}Keys.map wordOfKey")
        o += ["", "end CG.Generated.Wordlists", ""]
        files[f"Wordlists/{_cap(nm)}.lean"] = "\n".join(o)
    o = [f"import CG.Generated.Wordlists.{_cap(_lean_name(l))}" for l in LANGS] + hdr
    o += ["namespace CG.Generated.Wordlists", "open CG", "", "def byName : String → Option (List Bytes)"]
    for lang in LANGS:
        o.append(f'  | "{lang}" => some {_lean_name(lang)}')
    o.append("  | _ => none")
    o.append("")
    o.append("def all : List (List Bytes) := [" + ", ".join(_lean_name(l) for l in LANGS) + "]")
    o += ["", "end CG.Generated.Wordlists", ""]
    files["Wordlists.lean"] = "\n".join(o)
    return files


def regen_wordlists(V, log=None):
    """pre_build stage: ask the harness (real `load_wordlist`) for the eight lists and rewrite
    lean/CG/Generated/Wordlists.lean and Wordlists/*.lean — each file if (and only if) its content changes."""
    cgh = os.path.join(V, ".build", "target", "debug", "cgh")
    reqs = "".join(f"c10.wordlist {l}\n" for l in LANGS)
    p = subprocess.run([cgh, "replay"], input=reqs, capture_output=True, text=True, timeout=300)
    if p.returncode != 0:
        raise RuntimeError("cgh replay (c10.wordlist) failed: " + p.stderr[-1000:])
    lists = {}
    for line in p.stdout.split("\n"):
        if not line:
            continue
        req, _, out = line.partition("\t")
        lang = req.split(" ")[1]
        if not out.startswith("ok:"):
            raise RuntimeError(f"load_wordlist({lang}) did not return a list: {out[:200]}")
        body = out[3:]
        lists[lang] = [] if body == "" else [b"" if h == "-" else bytes.fromhex(h) for h in body.split(",")]
    if sorted(lists) != sorted(LANGS):
        raise RuntimeError("missing word lists: " + str(sorted(set(LANGS) - set(lists))))
    gen = os.path.join(V, "lean", "CG", "Generated")
    os.makedirs(os.path.join(gen, "Wordlists"), exist_ok=True)
    changed = []
    for rel, src in render_wordlists(lists).items():
        path = os.path.join(gen, rel)
        try:
            if open(path).read() == src:
                continue
        except FileNotFoundError:
            pass
        with open(path, "w") as f:
            f.write(src)
        changed.append(rel)
    if not changed:
        return None
    return "rewritten from load_wordlist: " + ", ".join("CG/Generated/" + c for c in changed)


def _nontrivial(req, impl):
    op = req.split(" ")[0]
    if op in ("c10.wordlist",):
        return True
    if op in ("c10.encode", "c10.roundtrip"):
        e = req.split(" ")[2]
        return e != "-" and (len(e) // 2) % 4 == 0 and not impl.startswith("panic")
    if op in ("c10.decode", "c10.decodew"):
        return req.split(" ")[2] != "-"
    return True


PROP = dict(
    modules=["CG.Props.C10"],
    pre_build=regen_wordlists,
    required_theorems=["C10_bits_append", "C10_bits_extract", "C10_encode_eq_spec", "C10_decode_encode",
                       "C10_bad_checksum_rejected", "C10_bad_word_rejected", "C10_wordlists_ok",
                       "C10_accept_only_valid", "C10_roundtrip_bundled", "C10_encode_injective"],
    rule="c10.wordlist: the eight lists of load_wordlist against the generated Lean lists. c10.encode / c10.roundtrip: every "
         "language x every entropy length 4..64 step 4 x {00.., ff.., 80.., 7f.., counting, random}; plus lengths outside the claim "
         "(0-19 not multiple of 4, 68..1040) with spec '*'. c10.decode: all 2047 x 12 single-word substitutions of an English "
         "sentence, sampled substitutions for every language x {4,16,24,32,64}-byte entropies, word counts 0,1,2,3,4,5,7,11,13,25,"
         "49,195,198,771; c10.decodew: foreign words / words of other languages / truncated sentences. c10.bits / c10.fromslice: "
         "random from_slice+append programs with extract / extract_byte queries (in and out of range, len up to 74). "
         "A case is non-trivial when it reaches the code under test with an input inside the claim "
         "(entropy length a multiple of 4, non-empty sentence); distinct by request line.",
    nontrivial=_nontrivial,
    trusted_base=["sha2 crate (SHA-256): a parameter in the theorems; an independent Lean SHA-256 in the driver",
                  "word lists: regenerated from load_wordlist by the harness on every run and re-compared in the correspondence (c10.wordlist)",
                  "Rust String equality modelled as equality of UTF-8 byte strings"],
    assumptions=["entropy length is a multiple of 4 bytes and at most 8*|hash| *4 bytes (1024 for SHA-256): beyond that BIP-39 defines no checksum",
                 "decode theorems: sentences of 3k words with k <= 64 (the u64 comparison of checksums is exact up to 64 bits)"],
)

CLAIM = dict(
    text="Kernel-checked theorems over a model of Bits (from_slice/append/extract) and mnemonic_encode/mnemonic_decode: the byte-packed "
         "vector refines a bit list; encode = BIP-39 word indexes for every entropy whose length is a multiple of 4 (any length the hash "
         "can serve), any hash, any 2048-word list; decode(encode e) = e for duplicate-free lists; a wrong checksum or a foreign word is "
         "rejected with BadArgument; each of the eight bundled lists (regenerated from the tree on every run) has 2048 distinct entries "
         "(kernel-evaluated checker). Tied to the code by a differential run over all lengths 4..64 x 8 languages and all single-word "
         "substitutions of a sentence.",
    note="Trusted: Lean kernel; the model<->code tie is differential (bounded by the generators); SHA-256 is a parameter in theorems and "
         "an independent Lean implementation in the driver. Sentences whose length is not a multiple of 3 and entropies whose length is "
         "not a multiple of 4 are outside the claim (the code accepts some of them).",
)

"""C07 — script evaluation is total: any bytes, any checker, no panic or hang."""
PROP = dict(
    modules=["CG.Props.C07"],
    required_theorems=["C07_next_op_progress", "C07_skip_branch_bounded", "C07_remove_sig_terminates", "C07_exec_no_panic",
                       "C07_fuel_suffices", "C07_no_panic", "C07_never_out_of_fuel", "C07_eval_no_panic",
                       "C07_always_terminates_with_value"],
    rule="c07.eval/verdict (scripted checker; the model predicts the exact outcome), c07.txeval (real TransactionChecker over "
         "generated transactions, in-range input index, extreme amounts), c07.zeval (ZChecker), c07.tleval (TransactionlessChecker): "
         "random bytes; grammar scripts then mutated (byte flip/insert/delete/truncate); truncated pushes and PUSHDATA1/2/4 lengths "
         "past the end; 0xab/0xac/0xad inside and outside push data; flow-control soup; every start/break pair in [0,len+1]^2 for "
         "short scripts; random initial stacks; all flag words. Every evaluation runs under catch_unwind. Cases whose evaluation "
         "requests more than 32 MiB at once are dropped (harness memory cap). Non-trivial: at least one opcode executed is not "
         "observable from outside, so counted conservatively as cases not failing with the generic script error on the first opcode: "
         "every case whose outcome is ok or an error other than ScriptError, plus ScriptError cases of scripts longer than 3 bytes.",
    nontrivial=lambda req, impl: impl.startswith("ok") or impl != "err:ScriptError" or len(req.split(" ")[1]) > 6,
    trusted_base=["k256 (signature/public-key parsing and verification inside the real checkers): observed under catch_unwind, not modelled",
                  "checker oracle in theorems: any Checker that itself never panics (covers scripted, ZChecker, TransactionlessChecker; the "
                  "TransactionChecker's sighash path is exercised by c07.txeval and modelled under C02)",
                  "Rust `as i32` / `as usize` casts on lengths below 2^31 (the model works over Nat/Int)"],
    assumptions=["scripts and stack items shorter than 2^31 bytes; single allocation requests capped at 32 MiB by the harness",
                 "input index < number of inputs for the transaction checker (as the property states)"],
)
CLAIM = dict(
    text="Kernel-checked totality of the interpreter model for every byte string, flag word, checker oracle, start/break offset and "
         "initial stacks: next_op progress, skip_branch/remove_sig fuel independence, every opcode arm free of panic sites given the "
         "check_index invariant, the main loop never out of fuel, coreEval/eval always ok or err. The model is the one tied to the real "
         "interpreter by C01's and C07's differential runs (exact outcome for scripted checkers); the three real checkers are run under "
         "catch_unwind on hostile scripts and transactions; every request runs under a deadline, so an evaluation that does not "
         "terminate is reported with its input (outcome hang:10s); initial stacks of every depth named by a literal of the sources.",
    note="Trusted: Lean kernel; differential tie bounded by generators; k256 and the TransactionChecker's sighash path observed, not proved here.",
)

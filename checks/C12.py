"""C12 — configuration of ./check C12 (PROP) and the MANIFEST claim (CLAIM)."""
def _judge_drift(drift, run_cases, raw=None):
    """steered sessions (c12.conc) on which the real threads and the interleaving model disagree: the log observed on
    the REAL code is judged by the statements proved in CG.Props.C12conc (driver op c12.judgeconc)"""
    reqs, keep = [], []
    for d in drift:
        f = d[0].split(" ")
        if f[0] != "c12.conc" or len(f) != 4 or not d[1].startswith("ok:"):
            continue
        reqs.append((f"c12.judgeconc {f[1]} {f[2]} {d[1][3:]}", ""))
        keep.append(d)
    out = []
    if reqs:
        for d, r in zip(keep, run_cases(reqs)):
            if r[2].startswith("viol:"):
                out.append((d[0], d[1], d[2], "log-satisfies-C12conc-theorems (judged: " + r[2] + ")", ""))
    return out


PROP = dict(
    modules=["CG.Props.C12", "CG.Props.C12conc", "CG.Props.C12wire"],
    judge_drift=_judge_drift,
    required_theorems=["C12_handshake_order", "C12_connected_once_before_any_message", "C12_each_message_once_in_order",
                       "C12_deliveries_are_arrivals_in_order", "C12_ping_pong_same_nonce", "C12_state_reflects_announcements",
                       "C12_disconnect_exactly_once", "C12_disconnect_once_on_close_or_garbage", "C12_disconnect_once_on_bad_version",
                       "C12_disconnect_once_on_bad_verack", "C12_nothing_after_remote_disconnect",
                       "C12_send_after_disconnect_is_error", "C12_local_disconnect_linearised", "C12_bytes_lift_to_events",
                       "C12_corrupt_bytes_lift_to_garbage", "C12_model_matches_reference", "C12_reference_defined",
                       "C12_early_local_disconnect_witness", "C12_tables_wf",
                       "C12_wire_whole_frames", "C12_wire_finished", "C12_wire_holder_moves", "C12_wire_unlocked_interleaves",
                       "C12_conc_disconnected_at_most_once", "C12_conc_event_implies_flag_cleared", "C12_conc_deliveries_in_order",
                       "C12_conc_nothing_after_remote_disconnect", "C12_conc_at_most_one_late_delivery", "C12_conc_late_delivery_witness",
                       "C12_conc_send_after_disconnect_is_error", "C12_conc_local_calls_never_block", "C12_conc_refines_sequential_model"],
    rule="c12.session / c12.race: one request = one scripted session against the real Peer over 127.0.0.1 (ephemeral port): a "
         "scripted node plays the tokens of the request (well-formed frames of any kind incl. ping/feefilter/sendheaders/"
         "sendcmpct/inv/tx/headers/addr/unknown commands/post-handshake version and verack, multi-kB tx; faults: wrong magic, wrong "
         "checksum, oversize length, undecodable payload, payload on a payload-less command, frame cut inside the header or the payload "
         "then half-close, half-close, silence through the handshake timeout; handshake variants: verack before version, no "
         "version, low protocol version, SVPeerFilter rejections by user agent / services / start height (and the accepted boundary), a "
         "message between version and verack, version twice, close before / inside / after version) written pipelined or frame by frame "
         "in k-byte segments (k in 0,1,5,23,37,100,1000) with 0-3 ms pacing; observers on connected_event(), disconnected_event(), "
         "messages() subscribed before the node sends a byte, one shared log; Peer::send / Peer::disconnect called from a second thread "
         "at scripted points (after `sync`: the peer has consumed what was sent) incl. before the handshake is over and with an "
         "unwritable message; then wait for the peer to close (6 s, else `hang`), late observers, a final send, the accessors, a "
         "process-wide panic counter. Compared: observer call sequence (C / M:<command>/<payload digest> / D), what the node "
         "received in order (version, verack, ping, pong:<nonce>, local messages), every send result, connected()/minfee()/"
         "sendheaders()/sendcmpct(), late-observer calls, panics: implementation = model (state machine run on the script's events) = "
         "reference (PeerSpec.expected; `*` only where disconnect() is called before the handshake is over). c12.race: disconnect() and "
         "bursts of send() racing with 5-40 frames in flight; compared is the race-insensitive summary (one connected event before "
         "any message, deliveries = a prefix of the frames sent in order, pongs = nonces of the delivered pings, one disconnected event, "
         "send results ok* then IllegalState*, node received exactly the ok sends, final send fails) which the driver checks to be the "
         "same for every linearisation point of the model. c12.conc: a real session after the handshake, N inv frames (+ half-close) "
         "sent at once, 1-3 local threads with programs over send / send-unserialisable / disconnect, every thread parked at the H3 sync "
         "points of peer.rs and released one model step at a time along the request's schedule (random prefix, then a fixed tail running "
         "every thread to completion); compared: the observable log (deliveries, disconnected event, send results) = the interleaving "
         "model's (CG.Model.PeerConc, eager invisible steps); a disagreeing log is judged by the C12conc theorem statements "
         "(c12.judgeconc). A case is non-trivial when a TCP session with the peer took place.",
    nontrivial=lambda req, impl: impl.startswith("ok:") or impl == "hang",
    trusted_base=["Single / Subject (src/util/rx.rs) enter the model only through their API semantics: first value wins, delivery to "
                  "subscribed observers in publication order (their concurrent behaviour is C13)",
                  "byte-level remote behaviour is lifted to events by the C11 theorems (imported, cited in C12_bytes_lift_to_events)",
                  "the harness's scripted node, its `sync` rule and the race summary (harness/src/c12.rs)",
                  "payload codecs: frames of commands other than version/ping/pong/feefilter/sendcmpct are taken as valid (f:) or rejected (g:) "
                  "as the generator built them (C05/C06 are about the codecs)"],
    assumptions=["sequential model (C12): one event = one atomic step; a local disconnect() whose flag store lands after the receive "
                 "thread's flag test of an in-flight message is linearised after that message although its disconnected event can be "
                 "published before the message is. The interleaving model (C12conc) makes this exact: at most one such late delivery, none "
                 "when every disconnection is remote-caused; nothing-after-disconnect is claimed for remote-caused disconnection (as the "
                 "property states)",
                 "C12conc: a write fails only on a locally shut socket or for an unserialisable message (the remote half-closes and keeps "
                 "reading); the receive thread's own pong write is one step; socket timing is not modelled (steered sessions send all "
                 "frames before the first step)",
                 "the handshake reads from the raw TcpStream (read_exact): segmentation there is covered by the correspondence only; a "
                 "timeout inside a handshake message, Message::Partial during the handshake, write errors on a reset socket and "
                 "TcpStream::connect failing are not modelled",
                 "the remote half-closes (shutdown(Write)) and keeps reading; an abortive close (RST with unread data) is not scripted",
                 "disconnect() called locally BEFORE the handshake is over does not stop the handshake (no socket to shut down yet): the peer "
                 "publishes disconnected, then connects, publishes connected and delivers. Modelled faithfully (C12_early_local_disconnect_"
                 "witness), compared impl = model, outside the property's statement (reference `*`)"],
    explanation="Expected on the unchanged tree: holds.",
)

CLAIM = dict(
    text="Kernel-checked theorems, by induction over arbitrary event lists, about a state-machine model of Peer::connect / "
         "connect_internal / handshake / handle_message / send / disconnect (events: remote frame, remote garbage, remote close, "
         "handshake silence, local send, local disconnect; any PeerFilter): the handshake outputs are version, then verack+ping+"
         "connected exactly when the remote's first two messages are an accepted version and a verack; the connected event is "
         "published at most once and before every delivery; against a conforming remote with any interleaved local sends every message is "
         "delivered exactly once in arrival order, and in ANY session the deliveries are a subsequence of the arrivals; the pongs written "
         "are exactly the nonces of the delivered pings in order; minfee/sendheaders/sendcmpct equal what the delivered announcements say; "
         "the disconnected event is published at most once in any session and exactly once after remote close, malformed data (bad "
         "magic/checksum/length/payload), handshake silence, wrong handshake order or filter rejection, after which nothing but "
         "IllegalState send results is produced (no delivery, no event, no write); the model's observable log equals an independent "
         "cut-based reference for every session in which disconnect() is not called before the handshake is over. Byte-level remote "
         "behaviour (segmentation, pacing, truncation, corruption) is lifted to events by the C11 theorems. Tied to the code by ~250 "
         "scripted loopback sessions per run against the real Peer (faults at any point, segmentation, pacing, local calls at "
         "scripted points and racing). CONCURRENT PART (CG.Props.C12conc): an interleaving model of the connected phase at the "
         "granularity of peer.rs's shared accesses (connected flag load/swap, the tcp_writer mutex incl. its being held across "
         "shutdown and the event in disconnect(), the single-shot event) with theorems over ALL schedules, any number of local "
         "threads and programs: at most one disconnected event; deliveries in order, each at most once; if no local thread calls "
         "disconnect() and every sent message is serialisable, NOTHING is delivered after the disconnected event; with local "
         "disconnect() racing, at most ONE message is (bound attained: kernel-checked witness, replayed on the real Peer); a send "
         "started after the flag was cleared is refused at once; WIRE LEVEL (CG.Props.C12wire): with a send being many write calls "
         "under the mutex, for any threads, messages, chunkings and schedules the wire is a concatenation of whole messages plus the "
         "holder's partial one (kernel-checked witness that it is not without the mutex; tied to the code by concurrent bursts whose "
         "frames the scripted node verifies); a local call waits only for the tcp_writer mutex whose holder can "
         "always release it; the sequential model above IS this model under atomic schedules (refinement theorem, outputs equal for every event list). Tied to the code by ~400 real loopback sessions per run steered through the H3 sync points of "
         "peer.rs, one model step per release, log compared exactly.",
    note="Concurrency of the connected phase is modelled and proved (C12conc) under: the remote half-closes and keeps reading (a "
         "write fails only on a locally shut socket or an unserialisable message; an abortive remote close making a local send fail "
         "is not modelled), no pings in steered sessions (the receive thread's pong write is one step). The handshake phase, socket "
         "buffering and timeouts remain observed by the correspondence, not modelled. Trusted: Lean kernel; Single/Subject "
         "through their API semantics (C13); the model<->code tie is differential (bounded by the generators).",
)

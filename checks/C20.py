"""C20 — configuration of ./check C20 (PROP) and the MANIFEST claim (CLAIM)."""
PROP = dict(
    modules=["CG.Props.C20"],
    required_theorems=["C20_limits_are_bip37", "C20_add_then_contains", "C20_add_monotone", "C20_positions_formula",
                       "C20_bit_layout", "C20_bit_positions", "C20_add_contains_eq_spec", "C20_contains_iff", "C20_add_commutes", "C20_add_commutes_queries", "C20_addAll_bits", "C20_addAll_order_irrelevant", "C20_contains_after_addAll_iff", "C20_no_panic",
                       "C20_validate_iff", "C20_no_panic_decoded", "C20_fix_conservative", "C20_pinned_empty_filter_panics",
                       "C20_constructor_within_limits", "C20_ceil_is_ceiling", "C20_filterload_roundtrip",
                       "C20_filterload_roundtrip_any", "C20_filterload_decode_fixpoint", "C20_filterload_layout"],
    rule="c20.add / c20.seq / c20.contains: BloomFilter{filter,num_hash_funcs,tweak} built directly (public fields): every size "
         "0..16 x {0,1,2,3,5,11,50} functions, every function count 0..52, every element length 0..520, boundary sizes 252..65537 "
         "incl. 35999/36000/36001, random sizes up to 36000 with zero / all-ones / patterned / random content, tweaks from "
         "{0,1,2^31,2^31+1,2^32-1,2^32-2,-0xFBA4C795,random}; outcome = validate verdict, resulting bit field (hex, or double "
         "SHA-256 when > 40 bytes), contains verdicts for the added element and up to 3 probes, against the model and the BIP-37 "
         "reference both instantiated with an independent Lean MurmurHash3; the two BIP-37 reference vectors. c20.new: grid of 18x15 "
         "doubles, 800 doubles with uniformly random exponent, 200 plausible arguments, rejected arguments, random bit patterns; "
         "only integer consequences compared (len <= 36000, funcs <= 50, validate ok, all-zero field). c20.fl_rt: write/size/read "
         "round trip on both sides of every var_int class and of 2^32 functions. c20.fl_read: valid payloads, every truncation, "
         "trailing bytes, bit flips, non-canonical and oversized declared lengths (<= 2^26), random bytes; decoded filters are "
         "validated and used (add + contains). A case is non-trivial unless it ends in an argument/decoding error or was refused; "
         "distinct by request line.",
    nontrivial=lambda req, impl: impl.startswith("ok") or impl.startswith("panic"),
    trusted_base=["murmur3 crate (MurmurHash3 x86_32) is a parameter in theorems; compared with an independent Lean MurmurHash3 in the driver",
                  "IEEE-754 evaluation of the two size formulas in BloomFilter::new is outside the proof: their value is an abstract "
                  "input (NaN, +inf, -inf, or any rational) and the theorem covers every value; sampled in the differential run",
                  "SHA-256 (crate and Lean) only to compare long bit fields compactly"],
    assumptions=["filter length < 2^29 bytes (where `len as u32 * 8` stops fitting a u32; protocol limit is 36000, MAX_PAYLOAD_SIZE 2^25)",
                 "tweak < 2^32, flags < 256 (types guarantee it); 64-bit usize",
                 "allocation of the declared length inside FilterLoad::read is the subject of C06, not modelled here "
                 "(requests declaring more than 2^27 bytes are refused by harness and driver alike)"],
)

CLAIM = dict(
    text="Kernel-checked theorems over a model of BloomFilter::add/contains/validate, the integer tail of BloomFilter::new and the "
         "FilterLoad codec, with MurmurHash3 as an arbitrary function: after add, contains is true after any further adds (every "
         "filter, empty included, any function count/tweak, both build profiles); add sets exactly the bits "
         "murmur3(seed=(i*0xFBA4C795+tweak) mod 2^32, data) mod (8*len), byte idx/8 bit idx%8, and no other; add/contains/validate "
         "never panic, also on every filter decoded from a payload up to MAX_PAYLOAD_SIZE; the constructor yields <= 36000 bytes "
         "and <= 50 functions for every value (finite, +-inf, NaN) of its size formulas; filterload decode(encode f) = f with "
         "size() bytes in the BIP-37 layout. The model is tied to the code by a differential run against an independent Lean "
         "MurmurHash3 (incl. the two BIP-37 vectors); filterload encodings are also written through writers that accept only part of "
         "what they are offered and decoded through readers that return short reads.",
    note="Trusted: Lean kernel; the model<->code tie is differential (bounded by the generators); floating-point evaluation of "
         "the size formulas is sampled, not proved. Defect repaired: empty bit field with >= 1 hash function panicked (% 0) in add/contains.",
)

#!/usr/bin/env python3
"""Writes MANIFEST.json from checks/manifest_data.py (kept valid at all times)."""
import json, os, sys
V = os.path.dirname(os.path.dirname(os.path.abspath(__file__)))
sys.path.insert(0, os.path.join(V, "checks"))
import manifest_data as md
ALL = ["C%02d" % i for i in range(1, 21)]
checks = []
for pid in ALL:
    if pid in md.CLAIMED:
        c = md.CLAIMED[pid]
        checks.append({
            "property_id": pid,
            "quick_cmd": f"./check {pid} --tier quick",
            "thorough_cmd": f"./check {pid} --tier thorough",
            "evidence_file": f"/verif/evidence/{pid}.json",
            "replay_cmd_template": f"./check {pid} --replay {{path}}",
            "engine": "lean4-proof+correspondence",
            "level_claimed": {"category": "proof", "text": c["text"], "design_ref": c.get("design_ref", f"DESIGN.md section 5, {pid}")},
            "level_note": c["note"],
            "technique": c.get("technique", "Lean 4 theorems about a hand-written model (kernel-checked, axioms audited) + differential correspondence of model/spec against the real code on every run"),
        })
na = [{"property_id": p, "reason": md.NOT_YET.get(p, "check not built yet in this session; planned per DESIGN.md section 5")} for p in ALL if p not in md.CLAIMED]
m = {
    "version": 1,
    "setup_cmd": "./setup.sh",
    "hooks": {
        "guard": "cargo feature verif-hooks",
        "enable": "the harness crate /verif/harness depends on /repo by path with features=[\"verif-hooks\"]; cargo build --offline",
        "baseline_off_cmd": "cd /repo && cargo test --workspace --no-fail-fast --offline",
        "source_commits": md.HOOK_COMMITS,
        "add_only": True,
    },
    "engines": [{"name": "lean4-proof+correspondence", "path": "/verif/check",
                 "serves_properties": sorted(md.CLAIMED.keys()),
                 "kind_free_text": "Lean 4 model/spec/theorems in /verif/lean (lake), Rust differential harness in /verif/harness linked against /repo's working tree, python orchestrator"}],
    "checks": checks,
    "not_applicable": na,
    "notes": md.NOTES,
}
json.dump(m, open(os.path.join(V, "MANIFEST.json"), "w"), indent=1)
print("claimed:", sorted(md.CLAIMED.keys()))

"""Shared helper: build the PyO3 extension from the tree the harness is linked against and run a
python runner script over request lines.  Used by the python stages of C09, C16, C18.

  so = build_ext(V)                      -> path of tx_engine.so (cargo feature `python`, cached in .build/target_py)
  impl = run_runner(so, runner_src, reqs) -> list of (request, outcome) from `python3 -c runner_src so`
  drv  = run_driver(V, reqs)             -> list of driver reply strings (model<TAB>spec[<TAB>sig])

The runner reads request lines on stdin and must print `request<TAB>outcome` per line; it loads the
extension with importlib from the path in sys.argv[1] (the tx_engine python package itself cannot be
imported: `requests`/`cryptography` are not installed). A Rust panic surfaces in Python as
pyo3_runtime.PanicException (a BaseException): runners should report it as `panic:<type name>`.
"""
import os, re, sys, subprocess, shutil, fcntl


def repo_path(V):
    cargo = open(os.path.join(V, "harness", "Cargo.toml")).read()
    m = re.search(r'chain-gang\s*=\s*\{\s*path\s*=\s*"([^"]+)"', cargo)
    return m.group(1) if m else "/repo"


def build_ext(V):
    repo = repo_path(V)
    target = os.path.join(V, ".build", "target_py")
    os.makedirs(target, exist_ok=True)
    env = dict(os.environ, CARGO_NET_OFFLINE="true", CARGO_TARGET_DIR=target)
    with open(os.path.join(V, ".build", "pyext.lock"), "w") as lk:
        fcntl.flock(lk, fcntl.LOCK_EX)
        p = subprocess.run(["cargo", "build", "--offline", "--quiet", "--lib", "--features", "python pyo3/extension-module"],
                           cwd=repo, env=env, capture_output=True, text=True, timeout=3000)
        so = os.path.join(target, "debug", "libchain_gang.so")
        if p.returncode != 0 or not os.path.exists(so):
            raise RuntimeError("python-feature build of the crate failed: " + p.stderr[-1500:])
        mod = os.path.join(target, "debug", "tx_engine.so")
        shutil.copyfile(so, mod)
    return mod


def run_runner(so, runner_src, reqs, extra_args=(), timeout=3000):
    r = subprocess.run([sys.executable, "-c", runner_src, so] + list(extra_args), input="\n".join(reqs) + "\n",
                       capture_output=True, text=True, timeout=timeout)
    impl = [tuple(l.split("\t", 1)) for l in r.stdout.split("\n") if "\t" in l]
    if len(impl) != len(reqs):
        raise RuntimeError(f"python runner answered {len(impl)} of {len(reqs)} requests (rc={r.returncode}): " + r.stderr[-1500:])
    return impl


def run_driver(V, reqs, timeout=3000):
    drv = os.path.join(V, "lean", ".lake", "build", "bin", "cgdrv")
    d = subprocess.run([drv], input="\n".join(reqs) + "\n", capture_output=True, text=True, timeout=timeout)
    outs = d.stdout.split("\n")
    if outs and outs[-1] == "":
        outs.pop()
    if len(outs) != len(reqs):
        raise RuntimeError(f"cgdrv answered {len(outs)} of {len(reqs)} python-stage requests (rc={d.returncode})")
    return outs


def compare(impl, outs, nontrivial=lambda req, im: True):
    """standard comparison of a python stage; returns (violations, histogram, distinct nontrivial set)"""
    viol, hist, nontriv = [], {}, set()
    for (req, im), o in zip(impl, outs):
        parts = o.split("\t")
        model = parts[0]
        spec = parts[1] if len(parts) > 1 else "*"
        sig = parts[2] if len(parts) > 2 else ""
        imn = "panic" if im.startswith("panic") else im
        cls = imn.split(":")[0]
        op = req.split(" ")[0]
        hist.setdefault(op, {}).setdefault(cls, 0)
        hist[op][cls] += 1
        if nontrivial(req, imn):
            nontriv.add(req)
        s_ok = spec == "*" or (spec == "nopanic" and cls != "panic") or (spec.startswith("class:") and cls == spec[6:]) or imn == spec
        m_ok = model == "*" or imn == model
        if not s_ok or not m_ok:
            viol.append((req, imn, model, spec, sig))
    return viol, hist, nontriv

"""C01 — script evaluation agrees with the reference stack-machine semantics."""
PROP = dict(
    modules=["CG.Props.C01"],
    required_theorems=["C01_opcode_table", "C01_dispatch", "C01_num_roundtrip", "C01_verdict", "C01_num2bin_defect",
                       "C01_value_eq_spec", "C01_encode_eq_spec", "C01_results_minimal", "C01_minimal_unique", "C01_small_num_agree",
                       "C01_encodeNum_eq", "C01_decodeBool_iff", "C01_lshift_spec", "C01_rshift_spec", "C01_exec_eq_spec",
                       "C01_num2bin_eq_spec_partial", "C01_run_eq_spec_modulo_num2bin", "C01_coreEval_eq_spec_no_num2bin",
                       "C01_structured_flow"],
    rule="c01.eval / c01.verdict: (a) scripts from a stack-shape-aware grammar (nested IF/NOTIF/ELSE/ENDIF, all four push "
         "classes, boundary operand pool: empty, +-0, non-minimal, +-(2^(8k-1)-1), +-2^(8k-1), up to 600 bytes; CHECKSIG/"
         "CHECKMULTISIG/CLTV/CSV with scripted checker outcomes), both rule sets; (b) every opcode sequence of length <= 2 and "
         "(quick: push-push-op plus a 1/40 sample; thorough: all) of length 3 over the alphabet {9 boundary pushes} U {opcodes "
         "79..185}; (c) three boundary pushes followed by every opcode. Compared: verdict, full main and alt stacks, reported "
         "offset, checker call log. Non-trivial = the script executed to completion (outcome ok) or failed inside an opcode "
         "after at least one opcode ran is not separable cheaply, so counted conservatively: only cases ending in ok.",
    nontrivial=lambda req, impl: impl.startswith("ok"),
    trusted_base=["num-bigint BigInt modelled as Int (to_bytes_le / from_bytes_le as minimal little-endian digits)",
                  "sha1/sha2/ripemd crates: parameters in theorems, independent Lean implementations in the driver",
                  "reference semantics (CG/Spec/ScriptSem.lean) shares the control skeleton and the list-manipulation opcodes "
                  "with the model; numeric, shift and conversion opcodes are stated independently over Int / Nat"],
    assumptions=["harness memory cap: NUM2BIN never sees a size operand above a few hundred (sequences that could are not generated)",
                 "stack items shorter than 2^31 bytes"],
)
CLAIM = dict(
    text="Lean model of core_eval/eval/check_multisig/remove_sig/next_op/skip_branch and of the number codecs and shifts, compared "
         "on every run with the real interpreter on ~90k scripts (verdict, both stacks, checker call log): impl = model exactly. "
         "37 theorems: byte-level number codec = closed-form value/minimal encoding for all integers (round trip, minimality, "
         "uniqueness), lshift/rshift = shifts of the big-endian number for every length and amount, model step = reference step for "
         "every opcode except NUM2BIN (partial there), whole runs equal modulo NUM2BIN, verdict rule, structured-flow theorem (flag "
         "machine = big-step semantics of the IF/ELSE/ENDIF tree), opcode table of the current tree = BSV assignments. NUM2BIN's sign placement is a recorded known finding with a "
         "kernel-checked witness.",
    note="Trusted: Lean kernel; differential tie bounded by the generators; BigInt = Int; hash crates are parameters.",
)

"""C17 — stepping a script through the debugger interface preserves its meaning."""
PROP = dict(
    modules=["CG.Props.C17"],
    required_theorems=["C17_codesep_not_carried", "C17_break_beyond_end", "C17_reported_offset", "C17_reported_list",
                       "C17_split_eq_single_partial", "C17_split_failure", "C17_split_eq_single_depth_zero", "C17_single_ok_split_ok",
                       "C17_verdict_preserved", "C17_split_eq_single_false"],
    rule="c17.split: grammar scripts cut into two segments at EVERY opcode boundary of conditional depth zero and into three "
         "segments at (quick: a 1/4 sample of; thorough: all) pairs of such boundaries, plus break offsets inside push data and at/"
         "beyond the end; each segment starts at the offset the previous one reported, carrying both stacks and the checker object. "
         "Compared with the single run: final stacks, checker call log, and the reported offsets predicted by the model. c17.break: "
         "break at len, len+1, len+7 equals no break. Non-trivial = the single run completes (ok).",
    nontrivial=lambda req, impl: impl.startswith("ok"),
    trusted_base=["the interpreter model of C01/C07 (same differential tie)", "scripted checker shared across segments"],
    assumptions=["boundaries outside conditional blocks (a break inside an open IF is 'ENDIF missing' by design)"],
)
CLAIM = dict(
    text="Segmented evaluation through start_at/break_at/initial stacks is modelled (CG.Model.Stepping) on top of the interpreter model "
         "and compared with the real interface on every depth-zero split of grammar scripts; the one state the interface cannot carry "
         "(the OP_CODESEPARATOR position) is a recorded finding with a kernel-checked witness. Theorems (any number of segments, any script, flags, "
         "checker that ignores its script argument): a successful segmented run equals the single run (stacks, alt stack, checker "
         "state); a segmented failure is the single run's failure or an open conditional at a break; break >= len equals no break; the "
         "reported offset is the requested boundary rounded up to the next opcode boundary on the execution path or the terminating "
         "OP_RETURN; the unqualified statement is refuted by the separator witness.",
    note="Trusted: Lean kernel; differential tie bounded by generators.",
)

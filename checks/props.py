"""Per-property configuration of ./check."""

COMMON_TRUSTED = [
    "Lean 4.33.0 kernel (axioms allowed: propext, Classical.choice, Quot.sound; audited per theorem on every run)",
    "hand-written Lean model of the Rust functions, tied to /repo's working tree on every run by the correspondence check (Rust harness cgh + compiled Lean driver cgdrv) and by regenerated constant tables",
    "Lean compiler/runtime for the driver only (never for a theorem)",
    "harness generators, canonicalisation and this orchestrator's comparison",
]

PROPS = {}

PROPS["C19"] = dict(
    modules=["CG.Props.C19"],
    required_theorems=["C19_serialisation_80", "C19_serialisation_injective", "C19_ord_numeric", "C19_target_value",
                       "C19_target_total", "C19_validate_eq_spec", "C19_validate_iff", "C19_validate_no_panic",
                       "C19_median_is_sorted_middle"],
    rule="c19.validate: every exponent 0..255 x boundary mantissas x hash at target-1/target/target+1/random; predecessor "
         "lists of length 0..15 (+ some longer) with duplicates and a candidate below/at/above the median; c19.cmp: equal, "
         "adjacent, one-byte-different and random 256-bit pairs; c19.hash: random headers with boundary u32 fields. "
         "A case is non-trivial unless it ends in the exponent-range error; distinct by request line.",
    nontrivial=lambda req, impl: impl != "err:BadArgument",
    trusted_base=["sha2 crate (SHA-256) modelled as a parameter in theorems; compared with an independent Lean SHA-256 in the driver",
                  "Rust slice::sort modelled as List.mergeSort (proved equal to insertion sort on naturals)"],
    assumptions=["bits < 2^32, hash is 32 bytes (types guarantee it)", "mantissa sign bit clear (outside the claim otherwise)"],
)

"""Per-property configuration of ./check."""

COMMON_TRUSTED = [
    "Lean 4.33.0 kernel (axioms allowed: propext, Classical.choice, Quot.sound; audited per theorem on every run)",
    "hand-written Lean model of the Rust functions, tied to /repo's working tree on every run by the correspondence check (Rust harness cgh + compiled Lean driver cgdrv) and by regenerated constant tables",
    "Lean compiler/runtime for the driver only (never for a theorem)",
    "harness generators, canonicalisation and this orchestrator's comparison",
]

PROPS = {}

import os, re, importlib.util
_d = os.path.dirname(os.path.abspath(__file__))
CLAIMS = {}
for _f in sorted(os.listdir(_d)):
    if re.fullmatch(r"C\d\d\.py", _f):
        _spec = importlib.util.spec_from_file_location("prop_" + _f[:-3], os.path.join(_d, _f))
        _m = importlib.util.module_from_spec(_spec)
        _spec.loader.exec_module(_m)
        PROPS[_f[:-3]] = _m.PROP
        if getattr(_m, "CLAIM", None):
            CLAIMS[_f[:-3]] = _m.CLAIM

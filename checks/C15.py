"""C15 — configuration of ./check C15 (PROP) and the MANIFEST claim (CLAIM)."""


def _items(sched):
    return [] if sched == "-" else [int(it.split("x")[0]) for it in sched.split(",")]


def _nontrivial(req, impl):
    """A case counts only if the destination really interfered with the serialiser under test: the value decoded
    and was written (no decode/reference error), it is non-empty, and some call can have been cut short, interrupted
    or refused (for c15.calls: the limited writer saw more calls than the unlimited one, or an error)."""
    f = req.split(" ")
    if len(f) != 6 or impl.startswith("err:decode") or impl.startswith("err:reference") or f[2] == "-":
        return False
    op, kind, ref, trace, sched, tail = f
    tr = [int(x) for x in trace.split(",")] if trace != "-" else [len(ref) // 2]
    if op == "c15.calls":
        p = impl.split(":")
        return impl.startswith("err") or (len(p) == 4 and int(p[1]) > len(tr))
    if tail != "open":
        return True
    return any(k == 0 or k < max(tr) for k in _items(sched))


def _regen_write_sites(V, log=None):
    """pre_build stage: scan /repo/src for every call made on an io::Write parameter (checks/srcscan.py) and rewrite
    lean/CG/Generated/WriteSites.lean when it changed; the theorem C15_source_has_no_bare_write is re-checked against it."""
    import os, sys, importlib
    sys.path.insert(0, os.path.join(V, "checks"))
    import srcscan
    importlib.reload(srcscan)
    src = srcscan.render(srcscan.scan_repo("/repo/src"))
    path = os.path.join(V, "lean", "CG", "Generated", "WriteSites.lean")
    try:
        if open(path).read() == src:
            return None
    except FileNotFoundError:
        pass
    with open(path, "w") as f:
        f.write(src)
    return "rewritten from /repo/src: CG/Generated/WriteSites.lean"


PROP = dict(
    modules=["CG.Props.C15"],
    pre_build=_regen_write_sites,
    required_theorems=["C15_write_all_delivers", "C15_write_all_never_silently_drops", "C15_memory_buffer", "C15_ops_deliver",
                       "C15_schedule_independent", "C15_ok_means_delivered", "C15_trace_replay_delivers", "C15_raw_can_drop",
                       "C15_raw_never_safe", "C15_raw_fails_on_interrupt", "C15_source_has_no_bare_write", "C15_source_sites_deliver"],
    rule="Every Message variant that can be written (32 kinds, addrv2 and cmpctblock with prefilled transactions built by decoding) and "
         "every public Serializable type (35 kinds incl. Hash256, OutPoint, TxIn, TxOut, Tx, Block, BlockHeader, Headers, InvVect, Inv, "
         "BlockLocator, MerkleBlock, NodeAddr(Ex), Version, BloomFilter, ExtendedKey, [u8;16/32], var_int): the value is written once to "
         "a Vec (reference) and once through a harness Write that accepts a scripted number of bytes per call. Schedules per value: the "
         "same limit k on every call (1,2,3,5,8,31,32,33; thorough 1..40 and larger), limits varying per call with Interrupted mixed in, "
         "one Interrupted / one 1-byte acceptance injected at call i for every i of the call trace (sampled when the trace is long), "
         "destinations that fail hard or return Ok(0) after a random prefix schedule, and the unlimited writer. c15.w compares result and "
         "delivered bytes with the reference; c15.calls compares number, total and checksum of the requested lengths of all raw calls with "
         "the model's write_all loop. Non-trivial = some call can have been cut short, interrupted or refused; distinct by request line.",
    nontrivial=_nontrivial,
    trusted_base=["std::io::Write::write_all (standard library) modelled by hand as writeAll; tied by the c15.calls comparison of every raw call's requested length",
                  "byteorder's write_u8/u16/u32/u64 are write_all of the encoded integer (confirmed by the call traces)",
                  "the claim 'every call of every serialiser is a write_all' rests on (a) the differential run (the call trace of each generated value replayed under position-targeted schedules) and (b) a source scan regenerated on every run (checks/srcscan.py -> CG/Generated/WriteSites.lean: every method call on an io::Write parameter in non-test code, classified) with the kernel-checked theorem that none is a bare write/write_vectored; the scanner (a regex-level reading of the Rust source, not a Rust parser) is trusted for (b)"],
    assumptions=["a schedule is finite: after it the destination accepts in full, fails hard, or returns Ok(0) for ever",
                 "acceptance limits are >= 1 byte per call (a call that accepts 0 bytes of a non-empty request is the Ok(0)/WriteZero case)",
                 "Message::Other and Message::Partial are not serialisable (write returns InvalidData before any call) and are not exercised"],
)

CLAIM = dict(
    text="Kernel-checked theorems over a model of a destination with a per-call acceptance schedule (limits >= 1, Interrupted at any "
         "call, then accept / hard error / Ok(0)), of std's write_all loop and of serialisers as lists of write operations: write_all "
         "delivers exactly its buffer under every schedule and terminates; a serialiser made of write_all calls delivers exactly its "
         "in-memory encoding under every schedule, and on any destination never reports Ok with bytes missing; a bare write() whose count "
         "is ignored drops bytes for every payload of >= 2 bytes. That every call of every chain-gang serialiser is a write_all is tied "
         "to the code twice: by a table of every call made on an io::Write parameter, regenerated from the Rust source on every run, with the "
         "theorem that none of them is a bare write (C15_source_has_no_bare_write), and by the differential run: all 32 writable Message kinds "
         "and 35 Serializable types through a scripted partial writer, with each call of each trace disturbed in turn.",
    note="Trusted: Lean kernel; hand model of std write_all (its raw-call sequence is compared with the real one on every case); the "
         "per-serialiser fact 'all calls are write_all' is differential (bounded by the generators) plus a regex-level source scan (trusted), not a proof about rustc's semantics of the source.",
)

"""C06 — configuration of ./check C06 (PROP) and the MANIFEST claim (CLAIM).

Allocation rule compared on both sides (harness/src/c06.rs: RULE_K, RULE_C; regenerated into
CG.Generated.C06_RULE_K / C06_RULE_C and used by lean/CG/Drv/C06.lean):

    c06.payload :  largest single request  <=  64 * len + 2 MiB + 4 KiB
    c06.msg     :  largest single request  <=  64 * len + 2 MiB + 4 KiB + MAX_PAYLOAD_SIZE (32 MiB)
    (harness only, not modelled: peak of live bytes <= twice that bound)

`len` = number of bytes supplied.  The theorems prove the tighter 16 * len + 1 800 512 (+ 32 MiB) for the
model of the repaired tree; C06_rule_covers shows the rule is implied.  The harness prints
`<class>|alloc-ok`, `<class>|alloc-over:<n>`, `<class>|peak-over:<n>`, `panic:<site>`, `abort` or `hang`;
the driver prints the model's class and the verdict of the same rule on the model's allocation log.
"""


def _nontrivial(req, impl):
    # every well-formed request reaches a decoder; a c06.msg case counts once the 24 header bytes were there
    if impl.startswith("bad-request") or impl.startswith("unknown-op"):
        return False
    f = req.split(" ")
    if f[0] == "c06.msg":
        return len(f) == 3 and f[2] != "-" and len(f[2]) >= 48
    return True


PROP = dict(
    modules=["CG.Props.C06"],
    required_theorems=["C06_decoder_is_C05", "C06_no_panic", "C06_no_panic_C05", "C06_no_panic_message",
                       "C06_steps_le_input", "C06_ok_consumes", "C06_steps_le_input_message",
                       "C06_alloc_bounded", "C06_alloc_bounded_message",
                       "C06_tree_policy", "C06_tree_constant", "C06_rule_covers", "C06_within_rule", "C06_within_rule_message",
                       "C06_validate_total", "C06_validate_total_read_partial", "C06_amount_sum_no_overflow",
                       "C06_pinned_tx_over_allocates", "C06_pinned_tx_panics", "C06_pinned_filteradd_over_allocates",
                       "C06_repaired_tx_witness", "C06_repaired_holds", "C06_pinned_fails"],
    rule="c06.payload <type> <hex>: T::read on a Cursor over the bytes for 31 payload types (every Serializable of src/messages plus var_int, "
         "MessageHeader, BloomFilter), then the argument-free validate() of the decoded value; c06.msg <magic> <hex>: Message::read (header, "
         "header validation, payload buffer, checksum, dispatch over 32 commands, the arm's validate()). Every request is decided in an isolated "
         "child process (cgh re-invoking itself) whose allocator refuses single requests above 256 MiB (-> SIGABRT = `abort`), with a 20 s "
         "no-progress watchdog (`hang`) and catch_unwind (`panic`); the child logs one outcome per finished request, so the culprit of a dead "
         "batch is known exactly and is re-run alone. Outcome = class (ok | ok/<validate class> | err:<Variant>) and the verdict of the "
         "allocation rule on the measured largest single request (and peak live bytes); compared as strings with the model's class and the "
         "same rule applied to the model's allocation log. Inputs: valid encodings of every type and every message kind harvested from the C05 "
         "generators (canonical and non-canonical layouts), then (a) at every byte offset the byte replaced (spliced) by each of 12 CompactSize "
         "patterns 0, 0xfc, fd 0000, fd fc00, fd ffff, fe 2^16, fe 2^28-1, fe 2^32-1, ff 2^32, ff 2^63, ff 2^63-1, ff 2^64-1 and overwritten by "
         "8 fixed-width patterns (u32 max/2^16/2^31/2^31-1, i64 max/min, u64 max, MAX_SATOSHIS) - all patterns at all offsets for the smallest "
         "encodings of a type, all patterns at offsets holding small or 0xfc+ bytes and 2 random patterns elsewhere for longer ones; "
         "(b) truncation at every offset; (c) single bit flips; (d) a hostile count combined with truncation; (e) bare hostile counts; "
         "(f) uniformly random strings. Messages: declared lengths 0, actual, actual+-1, 0xfc, 0xfd, 2^16, 32 MiB-1, 32 MiB, and for non-block "
         "commands 32 MiB+1, 2^31-1, 2^31, 2^32-1 (block messages declaring more than 32 MiB are exempt by design and not generated); bad "
         "checksum bits, bad magic, command bit flips, truncation at every offset, payload corruptions (a)-(d) re-framed with a correct "
         "length and checksum so that the payload decoder and validate() are reached, random payloads under all 32 commands and an unknown one. "
         "A c06.msg case is non-trivial once at least the 24 header bytes are present; distinct by request line.",
    nontrivial=_nontrivial,
    trusted_base=["harness child-process isolation, watchdog and tracking global allocator (alloc.rs): what `abort`, `hang` and the measured request sizes mean",
                  "std::vec / RawVec growth policy and Read::read_to_end as modelled (push at capacity requests max(2*cap, len+1, 4) elements; "
                  "read_to_end requests at most 2*(bytes read)+32): only the verdict under the rule is compared, not the individual requests",
                  "size_of::<T>() of the element types is regenerated from the harness binary (C06_SIZEOF_*); MAX_PREALLOC_BYTES is read from "
                  "src/util/serdes.rs with a strict line grammar (0 when absent: the model then trusts wire counts like the pinned tree)",
                  "sha2 crate: any function H in the theorems, an independent Lean SHA-256 in the driver",
                  "the C05 codec model (CG.Model.Wire.*) which C06 instruments: C06_decoder_is_C05 proves the instrumented decoders return the C05 outcome"],
    assumptions=["64-bit usize (counts are not truncated by `as usize`)",
                 "input sizes up to the harness limit (quick: <= ~1.4 kB per request); allocation behaviour of the OS and of the system allocator is observed, not modelled",
                 "block messages whose header declares more than MAX_PAYLOAD_SIZE are exempt from the size cap by design (hypothesis `¬ OversizeBlock b` of the message-level bound; not generated)",
                 "peak live bytes are observed by the harness (<= 2x the rule) but only the largest single request is modelled and proved",
                 "MerkleBlock::validate and MessageHeader::validate are executed (no panic, no over-allocation observed) but their verdicts are not modelled here (C14 / C05); "
                 "validators that need external arguments (Tx::validate, Block::validate, BlockHeader::validate) are outside this property"],
)

CLAIM = dict(
    text="Kernel-checked theorems over the C05 wire decoders re-interpreted with an allocation log and an iteration counter (CG.Model.WireAlloc; every "
         "Vec::with_capacity, vec![0; n], Vec::push growth and read_to_end of src/messages/*.rs, util/var_int.rs, util/bloom_filter.rs and MessageHeader::payload is a "
         "logged request), under the allocation policy of the repaired tree (capped_capacity / read_bytes with MAX_PREALLOC_BYTES = L): for ALL byte strings b, "
         "complete or truncated, for each of the 32 payload decoders and for Message::read with any hash function and magic: (1) the outcome is ok or err, never a "
         "panic, and equals the outcome of the C05 decoder; (2) loop iterations <= |b| + 3 and on success every iteration consumed a byte of its own - no hang; "
         "(3) every allocation request <= 16*|b| + max(L, MAX_INV_ENTRIES*36) + 512, plus MAX_PAYLOAD_SIZE for Message::read (block messages declaring more than "
         "32 MiB exempt, as the property says); (4) all eleven argument-free validate() methods, incl. the eight called by Message::read_partial and the i64 amount "
         "sums, never panic. For the tree under test the regenerated constants give L = 1 MiB and the bound 16*|b| + 1 800 512, which implies the rule compared at "
         "run time. Witness theorems (decide) show the statements are false of the pinned policy: Tx::read on a 10-byte payload requests 17 179 869 120 bytes, a "
         "count of 2^64-1 is a capacity-overflow panic, a 9-byte filteradd requests 4 GiB. The model is tied to the code on every run: ~80 000 hostile inputs "
         "(structure-aware count/length/amount corruptions of valid encodings of every kind, truncations, bit flips, random bytes, hostile headers) are decoded by the "
         "real code in isolated child processes under a counting allocator with a hard refusal limit, and outcome class plus allocation verdict are compared with the model.",
    note="Repaired under C06 (proposed_fixes/C06-bounded-preallocation.patch): 17 unbounded pre-allocation sites (Tx x2, TxIn, TxOut, Block, MerkleBlock x2, FilterAdd, "
         "FilterLoad, BloomFilter, Reject x2, Version, Protoconf, Createstrm, Authch). Trusted: Lean kernel; the differential tie (bounded by the generators); the Vec/"
         "read_to_end growth policy of std as modelled; the harness's isolation and allocator. Largest single request is proved and compared; peak live bytes are only "
         "observed. C05's model of PrefilledTransaction::validate predates commit 5faf22a (it still has the overflow branch); C06 models the current loop (sumOutputsNow).",
)
